//! C01 — `Solved` => certified approximate optimum of the user's problem.
use serde_json::json;
use vkit::gen::{self, GenOpts};
use vkit::kkt;
use vkit::problem::{self, status_name};
use vkit::{Ctx, Rng};
use clarabel::solver::SolverStatus;

pub fn gen_opts(ctx: &Ctx, rng: &mut Rng) -> GenOpts {
    let mut o = GenOpts { kinds: gen::all_kinds(), ..Default::default() };
    if ctx.flavour == "miri" {
        o.nmax = 3;
        o.mmax = 7;
        o.psd_max = 2;
    } else {
        o.nmax = *rng.choose(&[4, 10, 25]);
        o.mmax = *rng.choose(&[10, 30, 70]);
    }
    // wide-magnitude family in a fraction of the cases
    if rng.bool(0.15) {
        o.mag_lo = -3.0;
        o.mag_hi = 3.0;
    }
    o
}

/// plant +infinity-like right-hand sides into NN rows (keeps the planted point feasible)
pub fn plant_inf(pl: &mut gen::Planted, rng: &mut Rng, bound: f64) -> usize {
    use vkit::cones::{cone_ranges, ConeT};
    let mut cnt = 0;
    let ranges = cone_ranges(&pl.problem.cones);
    let cones = pl.problem.cones.clone();
    for (c, r) in cones.iter().zip(ranges) {
        if let ConeT::NonnegativeConeT(_) = c {
            for i in r {
                if rng.bool(0.3) {
                    pl.problem.b[i] = *rng.choose(&[bound, bound * 10.0, 1e30]);
                    pl.z0[i] = 0.0;
                    cnt += 1;
                }
            }
        }
    }
    if cnt > 0 {
        // recompute q = -P x0 - A' z0 and the planted objective bounds
        let a = vkit::dense::Dense::from_csc(&pl.problem.A);
        let ps = pl.problem.P_sym();
        let px = ps.matvec(&pl.x0);
        let atz = a.tmatvec(&pl.z0);
        let n = pl.x0.len();
        pl.problem.q = (0..n).map(|j| -px[j] - atz[j]).collect();
        let xpx: f64 = (0..n).map(|j| px[j] * pl.x0[j]).sum();
        pl.p0 = 0.5 * xpx + pl.problem.q.iter().zip(&pl.x0).map(|(a, b)| a * b).sum::<f64>();
        let bc: Vec<f64> = pl.problem.b.iter().map(|v| v.min(bound)).collect();
        pl.d0 = -bc.iter().zip(&pl.z0).map(|(a, b)| a * b).sum::<f64>() - 0.5 * xpx;
    }
    cnt
}

/// loosen every nonnegative / second-order / PSD constraint by a multiple t of the cone's identity element
/// (b += t e, s0 += t e): the planted point stays strictly feasible with slacks of size t, so the initial point of the
/// solver already has a comfortable margin in those cones; the planted dual value is recomputed (weak duality still
/// sandwiches the optimum between d0 and p0)
pub fn loosen(pl: &mut gen::Planted, rng: &mut Rng) -> bool {
    use vkit::cones::{cone_ranges, ConeT};
    let t = 10f64.powf(rng.range(1.0, 3.0));
    let cones = pl.problem.cones.clone();
    let mut any = false;
    for (c, r) in cones.iter().zip(cone_ranges(&cones)) {
        if r.is_empty() {
            continue;
        }
        match c {
            ConeT::NonnegativeConeT(_) => {
                for i in r {
                    if pl.problem.b[i] < 1e19 {
                        pl.problem.b[i] += t;
                        pl.s0[i] += t;
                    }
                }
                any = true;
            }
            ConeT::SecondOrderConeT(_) => {
                pl.problem.b[r.start] += t;
                pl.s0[r.start] += t;
                any = true;
            }
            #[cfg(feature = "sdp")]
            ConeT::PSDTriangleConeT(n) => {
                // packed upper triangle by columns: diagonal entries at triangular numbers - 1
                for k in 0..*n {
                    let idx = r.start + (k + 1) * (k + 2) / 2 - 1;
                    pl.problem.b[idx] += t;
                    pl.s0[idx] += t;
                }
                any = true;
            }
            _ => {}
        }
    }
    if any {
        let ps = pl.problem.P_sym();
        let px = ps.matvec(&pl.x0);
        let xpx: f64 = (0..pl.x0.len()).map(|j| px[j] * pl.x0[j]).sum();
        let bound = clarabel::get_infinity();
        let bc: Vec<f64> = pl.problem.b.iter().map(|v| v.min(bound)).collect();
        pl.d0 = -bc.iter().zip(&pl.z0).map(|(a, b)| a * b).sum::<f64>() - 0.5 * xpx;
    }
    any
}

pub fn run(ctx: &mut Ctx) {
    let wl = "planted";
    let total = if ctx.flavour == "miri" { ctx.count(24, 60) } else { ctx.count(1500, 25000) };
    let bound = clarabel::get_infinity();
    for case in ctx.cases(wl, total) {
        if ctx.out_of_budget() {
            continue;
        }
        ctx.begin(wl, case);
        let mut rng = Rng::for_case(ctx.seed, "C01/planted", case);
        let o = gen_opts(ctx, &mut rng);
        let mut pl = if rng.bool(0.85) { gen::planted_wellposed(&mut rng, &o) } else { gen::planted(&mut rng, &o) };
        let ninf = if rng.bool(0.15) { plant_inf(&mut pl, &mut rng, bound) } else { 0 };
        if rng.bool(0.2) && loosen(&mut pl, &mut rng) {
            ctx.bump("instances_with_loose_constraints");
        }
        // a slice with one hugely NEGATIVE right-hand side in a nonnegative row (a.x <= -1e21 ... -1e30): not an
        // infinite bound, a hard constraint that data of ordinary size cannot meet.  Nothing is expected of such a
        // run except what C01 says: IF it ends Solved, the documented test holds on the user's data (the planted
        // pair is void, so the sandwich is skipped)
        let mut hostile_rhs = false;
        if rng.bool(0.06) {
            use vkit::cones::{cone_ranges, ConeT};
            let rows: Vec<usize> = pl.problem.cones.iter().zip(cone_ranges(&pl.problem.cones)).filter(|(c, _)| matches!(c, ConeT::NonnegativeConeT(_))).flat_map(|(_, r)| r).collect();
            if !rows.is_empty() {
                let i = *rng.choose(&rows);
                pl.problem.b[i] = -(10f64.powf(rng.range(21.0, 30.0)));
                hostile_rhs = true;
                ctx.bump("instances_with_a_hugely_negative_right_hand_side");
            }
        }
        let st = gen::random_settings(&mut rng, ctx.flavour != "miri");
        let p = &pl.problem;
        let res = match problem::run(p, &st) {
            Ok(r) => r,
            Err(msg) => {
                // a panic on well-formed input belongs to C04; recorded here as inconclusive for C01
                ctx.inconclusive(&format!("panic: {msg}"), wl, case);
                continue;
            }
        };
        ctx.eval(1);
        ctx.bump(&format!("status_{}", status_name(res.status)));
        if res.status != SolverStatus::Solved {
            continue;
        }
        // presolve model
        let (drop, dontcare) = if st.presolve_enable { kkt::predicted_dropped(&p.cones, &p.b, bound) } else { (vec![false; p.m()], vec![false; p.m()]) };
        let dropped_actual = p.m() - res.data_m;
        let drop: Vec<bool> = if dontcare.iter().any(|&d| d) {
            // resolve don't-care rows by what the solver reports (s == bound && z == 0)
            (0..p.m()).map(|i| drop[i] || (dontcare[i] && st.presolve_enable && res.s[i] == bound && res.z[i] == 0.0 && p.b[i] >= bound * (1.0 - 1e-14))).collect()
        } else {
            drop
        };
        let keep: Vec<bool> = drop.iter().map(|d| !d).collect();
        let ceff = kkt::effective_cones(&p.cones, &drop);
        let ev = kkt::evaluate(p, &res.x, &res.s, &res.z, &keep, bound, &ceff);
        let mut fails = kkt::judge_solved(&ev, st.tol_feas, st.tol_gap_abs, st.tol_gap_rel, 1.0);
        // lengths and dropped rows
        if res.x.len() != p.n() || res.s.len() != p.m() || res.z.len() != p.m() {
            fails.push(("lengths".into(), json!({"x": res.x.len(), "s": res.s.len(), "z": res.z.len()})));
        }
        if drop.iter().filter(|&&d| d).count() != dropped_actual {
            fails.push(("dropped_count".into(), json!({"model": drop.iter().filter(|&&d| d).count(), "solver": dropped_actual})));
        }
        for i in 0..p.m() {
            if drop[i] && !(res.s[i] == bound && res.z[i] == 0.0) {
                fails.push(("dropped_row_values".into(), json!({"row": i, "s": res.s[i], "z": res.z[i]})));
                break;
            }
        }
        // weak-duality sandwich against the planted pair (normalisation free)
        let nz0 = pl.z0.iter().map(|v| v * v).sum::<f64>().sqrt();
        let nx0 = pl.x0.iter().map(|v| v * v).sum::<f64>().sqrt();
        let cone_slack = 1e-12 * (ev.norms * nz0 + ev.normz * pl.s0.iter().map(|v| v * v).sum::<f64>().sqrt());
        let lo = pl.d0 - ev.rp_norm * nz0 - cone_slack - ev.slack_obj - 1e-9 * pl.d0.abs().max(1.0) * 1e-3;
        let hi = pl.p0 + ev.rd_norm * nx0 + cone_slack + ev.slack_obj + 1e-9 * pl.p0.abs().max(1.0) * 1e-3;
        if !hostile_rhs && !(ev.p_obj >= lo) {
            fails.push(("sandwich_primal_below_planted_dual".into(), json!({"p_obj": ev.p_obj, "planted_d0": pl.d0, "lower": lo})));
        }
        if !hostile_rhs && !(ev.d_obj <= hi) {
            fails.push(("sandwich_dual_above_planted_primal".into(), json!({"d_obj": ev.d_obj, "planted_p0": pl.p0, "upper": hi})));
        }
        ctx.observe_max("res_p_over_tol", ev.res_p / st.tol_feas);
        ctx.observe_max("res_d_over_tol", ev.res_d / st.tol_feas);
        ctx.observe_max("min(gap_abs/tol,gap_rel/tol)", f64::min(ev.gap_abs / st.tol_gap_abs, ev.gap_rel / st.tol_gap_rel));
        ctx.observe_max("neg_s_margin", -ev.s_margin);
        ctx.observe_max("neg_z_margin", -ev.z_margin);
        ctx.nontrivial_hash(p.hash() ^ case);
        for k in p.cone_kinds() {
            ctx.bump(&format!("solved_with_{k}"));
        }
        ctx.bump(&format!("solved_backend_{}", res.linsolver_name));
        ctx.bump(if st.equilibrate_enable { "solved_equil_on" } else { "solved_equil_off" });
        ctx.bump(if st.presolve_enable { "solved_presolve_on" } else { "solved_presolve_off" });
        if ninf > 0 {
            ctx.bump("solved_with_planted_infinite_bounds");
        }
        if !pl.well_posed {
            ctx.bump("solved_illposed_instance");
        }
        for (oracle, detail) in fails {
            ctx.violation(&oracle, &oracle, wl, case, json!({"problem": p.to_json(), "settings": problem::settings_json(&st), "result": res.full_json(), "oracle_detail": detail}));
        }
        if case < 3 {
            ctx.sample(json!({"workload": wl, "n": p.n(), "m": p.m(), "cones": problem::cones_json(&p.cones), "status": status_name(res.status),
                "res_p": ev.res_p, "res_d": ev.res_d, "gap_abs": ev.gap_abs, "s_margin": ev.s_margin, "z_margin": ev.z_margin, "backend": res.linsolver_name}));
        }
    }
}

#!/bin/bash
# usage: regress_seeds.sh [ids...]  - every seeded change against the first check named in its meta.json caught_by (isolated
# copy, quick tier, flavour mon); prints one line per seed, "MISSED" when the check exits 0
ids=${@:-$(ls /verif/seeded | sort)}
for id in $ids; do
  chk=$(python3 -c "import json;print(json.load(open('/verif/seeded/$id/meta.json')).get('caught_by',['${id:0:3}'])[0])")
  line=$(/verif/tools/try_seed_iso.sh $id $chk 2>&1 | grep "^seed=" | tail -1)
  rc=$(echo "$line" | grep -o "rc=[0-9]*")
  if [ "$rc" = "rc=1" ]; then echo "caught $id by $chk"; else echo "MISSED $id by $chk :: $(echo "$line" | cut -c1-300)"; fi
done

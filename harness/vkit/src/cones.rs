//! Cone oracles written from the mathematical definitions (independent of the
//! code under test): membership margins for K and K*, interior samplers.

use crate::dd::{self, DD};
use crate::rng::Rng;
use clarabel::solver::SupportedConeT::{self, *};

pub type ConeT = SupportedConeT<f64>;

pub fn cone_dim(c: &ConeT) -> usize {
    match c {
        ZeroConeT(d) | NonnegativeConeT(d) | SecondOrderConeT(d) => *d,
        ExponentialConeT() | PowerConeT(_) => 3,
        GenPowerConeT(a, d2) => a.len() + *d2,
        #[cfg(feature = "sdp")]
        PSDTriangleConeT(n) => n * (n + 1) / 2,
    }
}
pub fn cone_name(c: &ConeT) -> &'static str {
    match c {
        ZeroConeT(_) => "Zero",
        NonnegativeConeT(_) => "NN",
        SecondOrderConeT(_) => "SOC",
        ExponentialConeT() => "Exp",
        PowerConeT(_) => "Pow",
        GenPowerConeT(_, _) => "GenPow",
        #[cfg(feature = "sdp")]
        PSDTriangleConeT(_) => "PSD",
    }
}
pub fn total_dim(cs: &[ConeT]) -> usize {
    cs.iter().map(cone_dim).sum()
}
pub fn cone_ranges(cs: &[ConeT]) -> Vec<std::ops::Range<usize>> {
    let mut v = vec![];
    let mut s = 0;
    for c in cs {
        let d = cone_dim(c);
        v.push(s..s + d);
        s += d;
    }
    v
}

/// dense symmetric matrix (row-major n*n) from the scaled-vectorised upper triangle
pub fn svec_to_mat(n: usize, v: &[f64]) -> Vec<f64> {
    let mut m = vec![0.0; n * n];
    let mut k = 0;
    let isq2 = std::f64::consts::FRAC_1_SQRT_2;
    for c in 0..n {
        for r in 0..=c {
            if r == c {
                m[r * n + c] = v[k];
            } else {
                m[r * n + c] = v[k] * isq2;
                m[c * n + r] = v[k] * isq2;
            }
            k += 1;
        }
    }
    m
}
pub fn mat_to_svec(n: usize, m: &[f64]) -> Vec<f64> {
    let mut v = vec![];
    let sq2 = std::f64::consts::SQRT_2;
    for c in 0..n {
        for r in 0..=c {
            if r == c {
                v.push(m[r * n + c]);
            } else {
                v.push(0.5 * (m[r * n + c] + m[c * n + r]) * sq2);
            }
        }
    }
    v
}

/// Signed membership margin of `v` in the cone (`dual=false`) or its dual cone:
/// > 0 strictly inside, < 0 outside, in units comparable to the entries of `v`.
/// Returns (margin, scale) with scale = max |v_i| (>= tiny).
pub fn margin(c: &ConeT, v: &[f64], dual: bool) -> (f64, f64) {
    let scale = v.iter().fold(0.0f64, |m, x| m.max(x.abs())).max(1e-300);
    // every margin below is positively homogeneous of degree one; far outside the range where squares and
    // products are representable (|v| < 1e-100 or > 1e100) the point is first scaled by an exact power of two
    let raw = v.iter().fold(0.0f64, |m, x| m.max(x.abs()));
    if raw > 0.0 && raw.is_finite() && !(1e-100..=1e100).contains(&raw) {
        let k = (scale.log2().floor() as i32).clamp(-1000, 1000);
        let f = 2f64.powi(-k);
        let vs: Vec<f64> = v.iter().map(|x| x * f).collect();
        let (m, _) = margin(c, &vs, dual);
        return (m / f, scale);
    }
    let m = match c {
        ZeroConeT(_) => {
            if dual {
                f64::INFINITY
            } else {
                -scale_if_nonzero(v)
            }
        }
        NonnegativeConeT(_) => v.iter().fold(f64::INFINITY, |m, x| m.min(*x)),
        SecondOrderConeT(_) => {
            if v.is_empty() {
                f64::INFINITY
            } else {
                (DD::new(v[0]) - dd::norm2_f(&v[1..])).f()
            }
        }
        ExponentialConeT() => {
            if !dual {
                exp_primal_margin(v)
            } else {
                exp_dual_margin(v)
            }
        }
        PowerConeT(a) => {
            let al = [*a, 1.0 - *a];
            genpow_margin(&al, v, dual)
        }
        GenPowerConeT(al, _) => genpow_margin(al, v, dual),
        #[cfg(feature = "sdp")]
        PSDTriangleConeT(n) => {
            if *n == 0 {
                f64::INFINITY
            } else {
                let m = svec_to_mat(*n, v);
                // row-major symmetric == column-major
                let (w, _) = refla::jacobi_eig_sym(*n, &m);
                w[0]
            }
        }
    };
    (m, scale)
}

fn scale_if_nonzero(v: &[f64]) -> f64 {
    v.iter().fold(0.0f64, |m, x| m.max(x.abs()))
}

/// K_exp = cl{(x,y,z): y>0, y exp(x/y) <= z};  margin = y ln(z/y) - x  (and y, z > 0)
fn exp_primal_margin(v: &[f64]) -> f64 {
    let (x, y, z) = (v[0], v[1], v[2]);
    if y > 0.0 && z > 0.0 {
        let t = DD::new(y) * (DD::new(z) / DD::new(y)).ln() - DD::new(x);
        t.f().min(y).min(z)
    } else if y == 0.0 && x <= 0.0 && z >= 0.0 {
        0.0
    } else {
        y.min(z).min(-1e-300)
    }
}
/// K_exp* = cl{(u,v,w): u<0, -u exp(v/u) <= e w};  margin = v - u - u ln(w/-u)
fn exp_dual_margin(vv: &[f64]) -> f64 {
    let (u, v, w) = (vv[0], vv[1], vv[2]);
    if u < 0.0 && w > 0.0 {
        let t = DD::new(v) - DD::new(u) - DD::new(u) * (DD::new(w) / DD::new(-u)).ln();
        t.f().min(-u).min(w)
    } else if u == 0.0 && v >= 0.0 && w >= 0.0 {
        0.0
    } else {
        (-u).min(w).min(-1e-300)
    }
}
/// primal: prod x_i^{a_i} >= ||w||;  dual: prod (u_i/a_i)^{a_i} >= ||w||
fn genpow_margin(al: &[f64], v: &[f64], dual: bool) -> f64 {
    let d1 = al.len();
    let mut minx = f64::INFINITY;
    for i in 0..d1 {
        minx = minx.min(v[i]);
    }
    if minx < 0.0 {
        return minx;
    }
    let mut lg = DD::ZERO;
    let mut zero = false;
    for i in 0..d1 {
        let xi = if dual { v[i] / al[i] } else { v[i] };
        if xi <= 0.0 {
            zero = true;
        } else {
            let xi_dd = if dual { DD::new(v[i]) / DD::new(al[i]) } else { DD::new(v[i]) };
            lg = lg + DD::new(al[i]) * xi_dd.ln();
        }
    }
    let prod = if zero { DD::ZERO } else { lg.exp() };
    let nw = dd::norm2_f(&v[d1..]);
    (prod - nw).f().min(minx)
}

/// relative interior test used by the monitors: margin >= -tol*scale
pub fn is_in(c: &ConeT, v: &[f64], dual: bool, reltol: f64) -> bool {
    let (m, sc) = margin(c, v, dual);
    m >= -reltol * sc
}

/// smallest relative margin over a composite cone; returns (worst ratio, index of the worst cone)
pub fn worst_margin(cs: &[ConeT], v: &[f64], dual: bool) -> (f64, usize) {
    let mut worst = f64::INFINITY;
    let mut wi = 0;
    for (i, (c, r)) in cs.iter().zip(cone_ranges(cs)).enumerate() {
        if cone_dim(c) == 0 {
            continue;
        }
        let (m, sc) = margin(c, &v[r], dual);
        // a second-order / exponential / power / PSD block below 1e-75 is underflow noise to the implementation's
        // own forms (fourth powers of its components - the discriminant of the second-order step length - are not
        // representable): "inside the cone up to rounding" has no relative
        // meaning there, and the block is not judged (same rule as C07; reached only by runs that were never allowed
        // to stop).  Nonnegative blocks are judged at every magnitude.
        if sc < 1e-75 && !matches!(c, NonnegativeConeT(_) | ZeroConeT(_)) {
            continue;
        }
        let ratio = m / sc;
        if ratio < worst {
            worst = ratio;
            wi = i;
        }
    }
    (worst, wi)
}

// ---------------------------------------------------------------------------
// interior samplers: a point strictly inside K (dual=false) or K* (dual=true)
// `mag` ~ overall magnitude, `depth` in (0,1]: relative distance from the boundary
// ---------------------------------------------------------------------------
pub fn sample_interior(c: &ConeT, rng: &mut Rng, dual: bool, mag: f64, depth: f64) -> Vec<f64> {
    match c {
        ZeroConeT(d) => {
            if dual {
                (0..*d).map(|_| mag * rng.range(-1.0, 1.0)).collect()
            } else {
                vec![0.0; *d]
            }
        }
        NonnegativeConeT(d) => (0..*d).map(|_| mag * rng.range(depth.min(0.5), 1.0 + depth)).collect(),
        SecondOrderConeT(d) => {
            if *d == 0 {
                return vec![];
            }
            let mut v: Vec<f64> = (0..*d).map(|_| rng.normal()).collect();
            let nt = v[1..].iter().map(|x| x * x).sum::<f64>().sqrt();
            v[0] = nt * (1.0 + depth) + if nt == 0.0 { 1.0 } else { 0.0 };
            let s = mag / v[0].abs().max(1e-300);
            v.iter().map(|x| x * s).collect()
        }
        ExponentialConeT() => {
            if !dual {
                let y = rng.range(0.2, 2.0);
                let z = rng.range(0.2, 2.0);
                let x = y * (z / y).ln() - depth * rng.range(0.5, 1.5);
                vec![x * mag, y * mag, z * mag]
            } else {
                let u = -rng.range(0.2, 2.0);
                let w = rng.range(0.2, 2.0);
                let v = u + u * (w / -u).ln() + depth * rng.range(0.5, 1.5);
                vec![u * mag, v * mag, w * mag]
            }
        }
        PowerConeT(a) => sample_genpow(&[*a, 1.0 - *a], 1, rng, dual, mag, depth),
        GenPowerConeT(al, d2) => sample_genpow(al, *d2, rng, dual, mag, depth),
        #[cfg(feature = "sdp")]
        PSDTriangleConeT(n) => {
            let n = *n;
            let mut g = vec![0.0; n * n];
            for x in g.iter_mut() {
                *x = rng.normal();
            }
            let mut m = vec![0.0; n * n];
            for i in 0..n {
                for j in 0..n {
                    let mut s = 0.0;
                    for k in 0..n {
                        s += g[i * n + k] * g[j * n + k];
                    }
                    m[i * n + j] = s / n.max(1) as f64 + if i == j { depth } else { 0.0 };
                }
            }
            mat_to_svec(n, &m).iter().map(|x| x * mag).collect()
        }
    }
}

fn sample_genpow(al: &[f64], d2: usize, rng: &mut Rng, dual: bool, mag: f64, depth: f64) -> Vec<f64> {
    let d1 = al.len();
    let base: Vec<f64> = (0..d1).map(|_| rng.range(0.3, 2.0)).collect();
    let mut prod = 1.0;
    for i in 0..d1 {
        prod *= base[i].powf(al[i]);
    }
    let mut w: Vec<f64> = (0..d2).map(|_| rng.normal()).collect();
    let nw = w.iter().map(|x| x * x).sum::<f64>().sqrt();
    let target = prod / (1.0 + depth) * rng.range(0.0, 1.0);
    if nw > 0.0 {
        for x in w.iter_mut() {
            *x *= target / nw;
        }
    }
    let mut v: Vec<f64> = (0..d1).map(|i| if dual { base[i] * al[i] } else { base[i] }).collect();
    v.extend(w);
    v.iter().map(|x| x * mag).collect()
}

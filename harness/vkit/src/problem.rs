//! Problem container, solver invocation with the per-iteration observer, and
//! JSON dumps for replay files.

use crate::cones::*;
use crate::dense::Dense;
use crate::report::catch;
use clarabel::algebra::CscMatrix;
use clarabel::solver::{DefaultSettings, DefaultSolver, IPSolver, SolverStatus};
use clarabel::verif::{IterEvent, IterEventKind};
use serde_json::{json, Value};
use std::cell::RefCell;
use std::rc::Rc;

#[derive(Clone, Debug)]
pub struct Problem {
    pub P: CscMatrix<f64>,
    pub q: Vec<f64>,
    pub A: CscMatrix<f64>,
    pub b: Vec<f64>,
    pub cones: Vec<ConeT>,
}

pub fn csc_json(c: &CscMatrix<f64>) -> Value {
    json!({"m": c.m, "n": c.n, "colptr": c.colptr, "rowval": c.rowval, "nzval": c.nzval})
}

pub fn cones_json(cs: &[ConeT]) -> Value {
    Value::Array(
        cs.iter()
            .map(|c| match c {
                ConeT::ZeroConeT(d) => json!({"Zero": d}),
                ConeT::NonnegativeConeT(d) => json!({"NN": d}),
                ConeT::SecondOrderConeT(d) => json!({"SOC": d}),
                ConeT::ExponentialConeT() => json!("Exp"),
                ConeT::PowerConeT(a) => json!({"Pow": a}),
                ConeT::GenPowerConeT(a, d2) => json!({"GenPow": [a, d2]}),
                #[cfg(feature = "sdp")]
                ConeT::PSDTriangleConeT(n) => json!({"PSD": n}),
            })
            .collect(),
    )
}

impl Problem {
    pub fn n(&self) -> usize {
        self.q.len()
    }
    pub fn m(&self) -> usize {
        self.b.len()
    }
    pub fn to_json(&self) -> Value {
        json!({"P": csc_json(&self.P), "q": self.q, "A": csc_json(&self.A), "b": self.b, "cones": cones_json(&self.cones)})
    }
    /// inverse of `to_json` (non-finite entries, written as null, come back as +inf)
    pub fn from_json(v: &Value) -> Option<Problem> {
        let fv = |x: &Value| -> Option<Vec<f64>> { Some(x.as_array()?.iter().map(|e| e.as_f64().unwrap_or(f64::INFINITY)).collect()) };
        let uv = |x: &Value| -> Option<Vec<usize>> { x.as_array()?.iter().map(|e| e.as_u64().map(|u| u as usize)).collect() };
        let csc = |x: &Value| -> Option<CscMatrix<f64>> {
            Some(CscMatrix { m: x["m"].as_u64()? as usize, n: x["n"].as_u64()? as usize, colptr: uv(&x["colptr"])?, rowval: uv(&x["rowval"])?, nzval: fv(&x["nzval"])? })
        };
        let mut cones = vec![];
        for c in v["cones"].as_array()? {
            if c.as_str() == Some("Exp") {
                cones.push(ConeT::ExponentialConeT());
                continue;
            }
            let (k, val) = c.as_object()?.iter().next()?;
            cones.push(match k.as_str() {
                "Zero" => ConeT::ZeroConeT(val.as_u64()? as usize),
                "NN" => ConeT::NonnegativeConeT(val.as_u64()? as usize),
                "SOC" => ConeT::SecondOrderConeT(val.as_u64()? as usize),
                "Pow" => ConeT::PowerConeT(val.as_f64()?),
                "GenPow" => ConeT::GenPowerConeT(fv(&val[0])?, val[1].as_u64()? as usize),
                #[cfg(feature = "sdp")]
                "PSD" => ConeT::PSDTriangleConeT(val.as_u64()? as usize),
                _ => return None,
            });
        }
        Some(Problem { P: csc(&v["P"])?, q: fv(&v["q"])?, A: csc(&v["A"])?, b: fv(&v["b"])?, cones })
    }
    pub fn hash(&self) -> u64 {
        let mut h = crate::report::hash_new();
        crate::report::hash_f64s(&mut h, &self.P.nzval);
        crate::report::hash_usizes(&mut h, &self.P.rowval);
        crate::report::hash_f64s(&mut h, &self.q);
        crate::report::hash_f64s(&mut h, &self.A.nzval);
        crate::report::hash_usizes(&mut h, &self.A.rowval);
        crate::report::hash_usizes(&mut h, &self.A.colptr);
        crate::report::hash_f64s(&mut h, &self.b);
        h
    }
    /// dense symmetric P as the solver interprets it (upper triangle is authoritative)
    pub fn P_sym(&self) -> Dense {
        let d = Dense::from_csc(&self.P);
        let mut t = d.clone();
        for i in 0..d.m {
            for j in 0..i {
                t.set(i, j, d.get(j, i));
            }
        }
        t
    }
    pub fn cone_kinds(&self) -> Vec<&'static str> {
        let mut v: Vec<&'static str> = self.cones.iter().filter(|c| cone_dim(c) > 0).map(cone_name).collect();
        v.sort();
        v.dedup();
        v
    }
}

pub fn status_name(s: SolverStatus) -> &'static str {
    match s {
        SolverStatus::Unsolved => "Unsolved",
        SolverStatus::Solved => "Solved",
        SolverStatus::PrimalInfeasible => "PrimalInfeasible",
        SolverStatus::DualInfeasible => "DualInfeasible",
        SolverStatus::AlmostSolved => "AlmostSolved",
        SolverStatus::AlmostPrimalInfeasible => "AlmostPrimalInfeasible",
        SolverStatus::AlmostDualInfeasible => "AlmostDualInfeasible",
        SolverStatus::MaxIterations => "MaxIterations",
        SolverStatus::MaxTime => "MaxTime",
        SolverStatus::NumericalError => "NumericalError",
        SolverStatus::InsufficientProgress => "InsufficientProgress",
    }
}
pub fn is_infeasible_status(s: SolverStatus) -> bool {
    matches!(
        s,
        SolverStatus::PrimalInfeasible | SolverStatus::DualInfeasible | SolverStatus::AlmostPrimalInfeasible | SolverStatus::AlmostDualInfeasible
    )
}
/// verdict class: 'S' solved-ish, 'P' primal infeasible, 'D' dual infeasible, '-' no verdict
pub fn verdict_class(s: SolverStatus) -> char {
    match s {
        SolverStatus::Solved | SolverStatus::AlmostSolved => 'S',
        SolverStatus::PrimalInfeasible | SolverStatus::AlmostPrimalInfeasible => 'P',
        SolverStatus::DualInfeasible | SolverStatus::AlmostDualInfeasible => 'D',
        _ => '-',
    }
}

#[derive(Clone, Debug)]
pub struct SolveResult {
    pub status: SolverStatus,
    pub info_status: SolverStatus,
    pub x: Vec<f64>,
    pub s: Vec<f64>,
    pub z: Vec<f64>,
    pub obj_val: f64,
    pub obj_val_dual: f64,
    pub r_prim: f64,
    pub r_dual: f64,
    pub iterations: u32,
    pub info_iterations: u32,
    pub solve_time: f64,
    pub events: Vec<IterEvent>,
    /// internal (reduced) sizes and scalings as public fields of solver.data
    pub data_n: usize,
    pub data_m: usize,
    pub d: Vec<f64>,
    pub e: Vec<f64>,
    pub einv: Vec<f64>,
    pub dinv: Vec<f64>,
    pub c: f64,
    pub internal_cones: Vec<ConeT>,
    pub linsolver_name: String,
    pub info_cost_primal: f64,
    pub info_cost_dual: f64,
    pub info_res_primal: f64,
    pub info_res_dual: f64,
    pub info_ktratio: f64,
}

impl SolveResult {
    pub fn final_event(&self) -> Option<&IterEvent> {
        self.events.iter().rev().find(|e| e.kind == IterEventKind::Final)
    }
    pub fn iter_events(&self) -> impl Iterator<Item = &IterEvent> {
        self.events.iter().filter(|e| e.kind == IterEventKind::Iterate)
    }
    pub fn summary_json(&self) -> Value {
        json!({"status": status_name(self.status), "iterations": self.iterations, "obj_val": fj(self.obj_val), "obj_val_dual": fj(self.obj_val_dual),
               "r_prim": fj(self.r_prim), "r_dual": fj(self.r_dual)})
    }
    pub fn full_json(&self) -> Value {
        json!({"status": status_name(self.status), "iterations": self.iterations, "obj_val": fj(self.obj_val), "obj_val_dual": fj(self.obj_val_dual),
               "r_prim": fj(self.r_prim), "r_dual": fj(self.r_dual), "x": self.x, "s": self.s, "z": self.z})
    }
}

/// JSON-safe float (NaN/inf become strings)
pub fn fj(x: f64) -> Value {
    if x.is_finite() {
        json!(x)
    } else {
        json!(format!("{x}"))
    }
}

pub fn quiet(mut s: DefaultSettings<f64>) -> DefaultSettings<f64> {
    s.verbose = false;
    s
}

pub fn extract(solver: &DefaultSolver<f64>, events: Vec<IterEvent>) -> SolveResult {
    let sol = &solver.solution;
    SolveResult {
        status: sol.status,
        info_status: solver.info.status,
        x: sol.x.clone(),
        s: sol.s.clone(),
        z: sol.z.clone(),
        obj_val: sol.obj_val,
        obj_val_dual: sol.obj_val_dual,
        r_prim: sol.r_prim,
        r_dual: sol.r_dual,
        iterations: sol.iterations,
        info_iterations: solver.info.iterations,
        solve_time: sol.solve_time,
        events,
        data_n: solver.data.n,
        data_m: solver.data.m,
        d: solver.data.equilibration.d.clone(),
        e: solver.data.equilibration.e.clone(),
        einv: solver.data.equilibration.einv.clone(),
        dinv: solver.data.equilibration.dinv.clone(),
        c: solver.data.equilibration.c,
        internal_cones: solver.data.cones.clone(),
        linsolver_name: solver.info.linsolver.name.clone(),
        info_cost_primal: solver.info.cost_primal,
        info_cost_dual: solver.info.cost_dual,
        info_res_primal: solver.info.res_primal,
        info_res_dual: solver.info.res_dual,
        info_ktratio: solver.info.ktratio,
    }
}

/// run `solve` on an existing solver with the observer installed; panics are caught.
/// The events observed up to a panic are returned as well.
pub fn solve_traced(solver: &mut DefaultSolver<f64>) -> (Result<(), String>, Vec<IterEvent>) {
    let log: Rc<RefCell<Vec<IterEvent>>> = Rc::new(RefCell::new(vec![]));
    let l2 = log.clone();
    clarabel::verif::set_observer(Some(Box::new(move |ev| l2.borrow_mut().push(ev.clone()))));
    let r = catch(std::panic::AssertUnwindSafe(|| solver.solve()));
    clarabel::verif::set_observer(None);
    let ev = log.borrow().clone();
    (r, ev)
}

pub fn solve_observed(solver: &mut DefaultSolver<f64>) -> Result<Vec<IterEvent>, String> {
    let (r, ev) = solve_traced(solver);
    r?;
    Ok(ev)
}

/// construct + solve; Err(panic message) if `new` or `solve` panicked
pub fn run(p: &Problem, settings: &DefaultSettings<f64>) -> Result<SolveResult, String> {
    let st = settings.clone();
    let mut solver = catch(std::panic::AssertUnwindSafe(|| DefaultSolver::new(&p.P, &p.q, &p.A, &p.b, &p.cones, st)))?;
    let ev = solve_observed(&mut solver)?;
    Ok(extract(&solver, ev))
}

/// like `run`, but also returns the events seen before a panic and the internal cone list
pub fn run_traced(p: &Problem, settings: &DefaultSettings<f64>) -> (Result<SolveResult, String>, Vec<IterEvent>, Vec<ConeT>) {
    let st = settings.clone();
    let mut solver = match catch(std::panic::AssertUnwindSafe(|| DefaultSolver::new(&p.P, &p.q, &p.A, &p.b, &p.cones, st))) {
        Ok(s) => s,
        Err(e) => return (Err(e), vec![], vec![]),
    };
    let cones = solver.data.cones.clone();
    let (r, ev) = solve_traced(&mut solver);
    match r {
        Ok(()) => (Ok(extract(&solver, ev.clone())), ev, cones),
        Err(e) => (Err(e), ev, cones),
    }
}

/// like `run_traced`, with a hook between construction and solve (e.g. to redirect the print target)
pub fn run_traced_with(p: &Problem, settings: &DefaultSettings<f64>, prep: impl FnOnce(&mut DefaultSolver<f64>)) -> (Result<SolveResult, String>, Vec<IterEvent>, Vec<ConeT>) {
    let st = settings.clone();
    let mut solver = match catch(std::panic::AssertUnwindSafe(|| DefaultSolver::new(&p.P, &p.q, &p.A, &p.b, &p.cones, st))) {
        Ok(s) => s,
        Err(e) => return (Err(e), vec![], vec![]),
    };
    prep(&mut solver);
    let cones = solver.data.cones.clone();
    let (r, ev) = solve_traced(&mut solver);
    match r {
        Ok(()) => (Ok(extract(&solver, ev.clone())), ev, cones),
        Err(e) => (Err(e), ev, cones),
    }
}

pub fn new_solver(p: &Problem, settings: &DefaultSettings<f64>) -> Result<DefaultSolver<f64>, String> {
    let st = settings.clone();
    catch(std::panic::AssertUnwindSafe(|| DefaultSolver::new(&p.P, &p.q, &p.A, &p.b, &p.cones, st)))
}

pub fn settings_json(s: &DefaultSettings<f64>) -> Value {
    serde_json::to_value(s).unwrap_or(Value::Null)
}

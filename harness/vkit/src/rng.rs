//! Deterministic PRNG (xoshiro256**, seeded through SplitMix64).  Case `i` of
//! property `p` under seed `s` is generated from `Rng::for_case(s, p, i)` alone,
//! so a case can be replayed independently of sharding.

#[derive(Clone, Debug)]
pub struct Rng {
    s: [u64; 4],
}

fn splitmix(x: &mut u64) -> u64 {
    *x = x.wrapping_add(0x9E3779B97F4A7C15);
    let mut z = *x;
    z = (z ^ (z >> 30)).wrapping_mul(0xBF58476D1CE4E5B9);
    z = (z ^ (z >> 27)).wrapping_mul(0x94D049BB133111EB);
    z ^ (z >> 31)
}

pub fn hash_str(s: &str) -> u64 {
    let mut h: u64 = 0xcbf29ce484222325;
    for b in s.bytes() {
        h ^= b as u64;
        h = h.wrapping_mul(0x100000001b3);
    }
    h
}

impl Rng {
    pub fn new(seed: u64) -> Self {
        let mut x = seed;
        let s = [splitmix(&mut x), splitmix(&mut x), splitmix(&mut x), splitmix(&mut x)];
        Rng { s }
    }
    pub fn for_case(seed: u64, tag: &str, case: u64) -> Self {
        let mut x = seed ^ hash_str(tag).rotate_left(17);
        let a = splitmix(&mut x);
        let mut y = a ^ case.wrapping_mul(0xD1342543DE82EF95);
        Rng::new(splitmix(&mut y))
    }
    pub fn next_u64(&mut self) -> u64 {
        let r = self.s[1].wrapping_mul(5).rotate_left(7).wrapping_mul(9);
        let t = self.s[1] << 17;
        self.s[2] ^= self.s[0];
        self.s[3] ^= self.s[1];
        self.s[1] ^= self.s[2];
        self.s[0] ^= self.s[3];
        self.s[2] ^= t;
        self.s[3] = self.s[3].rotate_left(45);
        r
    }
    /// uniform in [0,1)
    pub fn unif(&mut self) -> f64 {
        (self.next_u64() >> 11) as f64 / (1u64 << 53) as f64
    }
    /// uniform in [a,b)
    pub fn range(&mut self, a: f64, b: f64) -> f64 {
        a + (b - a) * self.unif()
    }
    /// integer uniform in [a,b] inclusive
    pub fn int(&mut self, a: i64, b: i64) -> i64 {
        assert!(b >= a);
        let span = (b - a) as u64 + 1;
        a + (self.next_u64() % span) as i64
    }
    pub fn usize(&mut self, a: usize, b: usize) -> usize {
        self.int(a as i64, b as i64) as usize
    }
    pub fn bool(&mut self, p: f64) -> bool {
        self.unif() < p
    }
    /// standard normal (Box-Muller)
    pub fn normal(&mut self) -> f64 {
        let u1 = (1.0 - self.unif()).max(1e-300);
        let u2 = self.unif();
        (-2.0 * u1.ln()).sqrt() * (2.0 * std::f64::consts::PI * u2).cos()
    }
    /// log-uniform magnitude in [10^lo, 10^hi] with random sign
    pub fn logmag(&mut self, lo: f64, hi: f64) -> f64 {
        let e = self.range(lo, hi);
        let s = if self.bool(0.5) { 1.0 } else { -1.0 };
        s * 10f64.powf(e)
    }
    /// positive log-uniform in [10^lo, 10^hi]
    pub fn logpos(&mut self, lo: f64, hi: f64) -> f64 {
        10f64.powf(self.range(lo, hi))
    }
    pub fn choose<'a, T>(&mut self, v: &'a [T]) -> &'a T {
        &v[self.usize(0, v.len() - 1)]
    }
    pub fn shuffle<T>(&mut self, v: &mut [T]) {
        for i in (1..v.len()).rev() {
            let j = self.usize(0, i);
            v.swap(i, j);
        }
    }
    pub fn perm(&mut self, n: usize) -> Vec<usize> {
        let mut p: Vec<usize> = (0..n).collect();
        self.shuffle(&mut p);
        p
    }
    pub fn small_int_val(&mut self, k: i64) -> f64 {
        self.int(-k, k) as f64
    }
}

//! Dense reference model of matrices (row-major, f64) with the harness's own
//! CSC decoding, used as the "dense meaning" of sparse operations.

use crate::dd::{self, DD};
use clarabel::algebra::CscMatrix;

#[derive(Clone, Debug, PartialEq)]
pub struct Dense {
    pub m: usize,
    pub n: usize,
    pub a: Vec<f64>, // row-major
}

impl Dense {
    pub fn zeros(m: usize, n: usize) -> Self {
        Dense { m, n, a: vec![0.0; m * n] }
    }
    pub fn eye(n: usize) -> Self {
        let mut d = Dense::zeros(n, n);
        for i in 0..n {
            d.a[i * n + i] = 1.0;
        }
        d
    }
    #[inline]
    pub fn get(&self, i: usize, j: usize) -> f64 {
        self.a[i * self.n + j]
    }
    #[inline]
    pub fn set(&mut self, i: usize, j: usize, v: f64) {
        self.a[i * self.n + j] = v;
    }
    #[inline]
    pub fn add(&mut self, i: usize, j: usize, v: f64) {
        self.a[i * self.n + j] += v;
    }
    /// the harness's own decoding of a CSC encoding (sums duplicates; panics on malformed)
    pub fn from_csc(c: &CscMatrix<f64>) -> Self {
        let mut d = Dense::zeros(c.m, c.n);
        assert_eq!(c.colptr.len(), c.n + 1);
        for j in 0..c.n {
            for k in c.colptr[j]..c.colptr[j + 1] {
                d.add(c.rowval[k], j, c.nzval[k]);
            }
        }
        d
    }
    /// structural pattern (true where an entry is stored, regardless of value)
    pub fn pattern_of(c: &CscMatrix<f64>) -> Vec<bool> {
        let mut p = vec![false; c.m * c.n];
        for j in 0..c.n {
            for k in c.colptr[j]..c.colptr[j + 1] {
                p[c.rowval[k] * c.n + j] = true;
            }
        }
        p
    }
    pub fn transpose(&self) -> Dense {
        let mut t = Dense::zeros(self.n, self.m);
        for i in 0..self.m {
            for j in 0..self.n {
                t.set(j, i, self.get(i, j));
            }
        }
        t
    }
    /// full symmetric matrix from upper-triangular storage
    pub fn sym_from_triu(&self) -> Dense {
        assert_eq!(self.m, self.n);
        let mut s = self.clone();
        for i in 0..self.m {
            for j in 0..i {
                s.set(i, j, self.get(j, i));
            }
        }
        s
    }
    /// y = A x in double-double
    pub fn matvec_dd(&self, x: &[f64]) -> Vec<DD> {
        assert_eq!(x.len(), self.n);
        (0..self.m).map(|i| dd::dot(&self.a[i * self.n..(i + 1) * self.n], x)).collect()
    }
    /// y = A' x in double-double
    pub fn tmatvec_dd(&self, x: &[f64]) -> Vec<DD> {
        assert_eq!(x.len(), self.m);
        let mut y = vec![DD::ZERO; self.n];
        for i in 0..self.m {
            for j in 0..self.n {
                let v = self.get(i, j);
                if v != 0.0 {
                    y[j] = y[j] + DD::new(v) * DD::new(x[i]);
                }
            }
        }
        y
    }
    pub fn matvec(&self, x: &[f64]) -> Vec<f64> {
        self.matvec_dd(x).iter().map(|v| v.f()).collect()
    }
    pub fn tmatvec(&self, x: &[f64]) -> Vec<f64> {
        self.tmatvec_dd(x).iter().map(|v| v.f()).collect()
    }
    pub fn matmul(&self, b: &Dense) -> Dense {
        assert_eq!(self.n, b.m);
        let mut c = Dense::zeros(self.m, b.n);
        for i in 0..self.m {
            for j in 0..b.n {
                let mut s = DD::ZERO;
                for k in 0..self.n {
                    s = s + DD::new(self.get(i, k)) * DD::new(b.get(k, j));
                }
                c.set(i, j, s.f());
            }
        }
        c
    }
    pub fn max_abs(&self) -> f64 {
        self.a.iter().fold(0.0f64, |m, x| m.max(x.abs()))
    }
    /// column-major copy (for refla)
    pub fn colmajor(&self) -> Vec<f64> {
        let mut v = vec![0.0; self.m * self.n];
        for i in 0..self.m {
            for j in 0..self.n {
                v[i + j * self.m] = self.get(i, j);
            }
        }
        v
    }
    pub fn from_colmajor(m: usize, n: usize, v: &[f64]) -> Dense {
        let mut d = Dense::zeros(m, n);
        for i in 0..m {
            for j in 0..n {
                d.set(i, j, v[i + j * m]);
            }
        }
        d
    }
    /// build a canonical CSC from the nonzero entries (or from an explicit pattern)
    pub fn to_csc(&self) -> CscMatrix<f64> {
        let mut colptr = vec![0usize; self.n + 1];
        let mut rowval = vec![];
        let mut nzval = vec![];
        for j in 0..self.n {
            for i in 0..self.m {
                let v = self.get(i, j);
                if v != 0.0 {
                    rowval.push(i);
                    nzval.push(v);
                }
            }
            colptr[j + 1] = rowval.len();
        }
        CscMatrix { m: self.m, n: self.n, colptr, rowval, nzval }
    }
    pub fn to_csc_pattern(&self, pat: &[bool]) -> CscMatrix<f64> {
        let mut colptr = vec![0usize; self.n + 1];
        let mut rowval = vec![];
        let mut nzval = vec![];
        for j in 0..self.n {
            for i in 0..self.m {
                if pat[i * self.n + j] {
                    rowval.push(i);
                    nzval.push(self.get(i, j));
                }
            }
            colptr[j + 1] = rowval.len();
        }
        CscMatrix { m: self.m, n: self.n, colptr, rowval, nzval }
    }
    /// eigenvalues (ascending) of a symmetric matrix by the harness's Jacobi solver
    pub fn eigvals_sym(&self) -> Vec<f64> {
        assert_eq!(self.m, self.n);
        refla::jacobi_eig_sym(self.n, &self.colmajor()).0
    }
    pub fn singular_values(&self) -> Vec<f64> {
        refla::singular_values(self.m, self.n, &self.colmajor())
    }
}

/// the harness's own canonical-encoding predicate for CSC data
pub fn is_canonical_csc(c: &CscMatrix<f64>) -> bool {
    if c.colptr.len() != c.n + 1 {
        return false;
    }
    if c.colptr[0] != 0 {
        return false;
    }
    if c.rowval.len() != c.nzval.len() {
        return false;
    }
    if *c.colptr.last().unwrap() != c.rowval.len() {
        return false;
    }
    for j in 0..c.n {
        if c.colptr[j] > c.colptr[j + 1] {
            return false;
        }
        if c.colptr[j + 1] > c.rowval.len() {
            return false;
        }
        let mut prev: Option<usize> = None;
        for k in c.colptr[j]..c.colptr[j + 1] {
            let r = c.rowval[k];
            if r >= c.m {
                return false;
            }
            if let Some(p) = prev {
                if r <= p {
                    return false;
                }
            }
            prev = Some(r);
        }
    }
    true
}

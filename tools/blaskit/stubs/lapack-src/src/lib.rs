//! refblas (LAPACK part): pure-Rust reference implementations of exactly the
//! LAPACK routines Clarabel calls (dpotrf dpotrs dsyevr dgesdd dgesvd dgesv),
//! exported with the Fortran symbol names.  See the `blas-src` stub for the
//! slice-length discipline.  Workspace queries (`lwork = -1`) are honoured.
#![allow(clippy::missing_safety_doc)]
#![allow(clippy::too_many_arguments)]
#![allow(non_snake_case)]

use core::ffi::{c_char, c_int};
use core::slice::{from_raw_parts, from_raw_parts_mut};

fn need(ld: usize, rows: usize, cols: usize) -> usize {
    if cols == 0 || rows == 0 {
        0
    } else {
        assert!(ld >= rows, "reflapack: leading dimension {ld} < rows {rows}");
        ld * (cols - 1) + rows
    }
}
fn ch(c: *const c_char) -> u8 {
    (unsafe { *c } as u8).to_ascii_uppercase()
}
fn dim(p: *const c_int) -> usize {
    let v = unsafe { *p };
    assert!(v >= 0, "reflapack: negative dimension");
    v as usize
}

#[no_mangle]
pub unsafe extern "C" fn dpotrf_(
    uplo: *const c_char,
    n: *const c_int,
    A: *mut f64,
    lda: *const c_int,
    info: *mut c_int,
) {
    let u = ch(uplo);
    let (n, lda) = (dim(n), dim(lda));
    let a = from_raw_parts_mut(A, need(lda, n, n));
    *info = 0;
    match u {
        b'L' => {
            if let Err(k) = refla::cholesky_lower_inplace(n, a, lda) {
                *info = k as c_int;
            }
        }
        b'U' => {
            // factor the transpose, write back into the upper triangle
            let mut t = vec![0.0; n * n];
            for j in 0..n {
                for i in 0..=j {
                    t[j + i * n] = a[i + j * lda];
                }
            }
            match refla::cholesky_lower_inplace(n, &mut t, n) {
                Ok(()) => {
                    for j in 0..n {
                        for i in 0..=j {
                            a[i + j * lda] = t[j + i * n];
                        }
                    }
                }
                Err(k) => *info = k as c_int,
            }
        }
        _ => panic!("reflapack: bad uplo"),
    }
}

#[no_mangle]
pub unsafe extern "C" fn dpotrs_(
    uplo: *const c_char,
    n: *const c_int,
    nrhs: *const c_int,
    A: *const f64,
    lda: *const c_int,
    B: *mut f64,
    ldb: *const c_int,
    info: *mut c_int,
) {
    let u = ch(uplo);
    let (n, nrhs, lda, ldb) = (dim(n), dim(nrhs), dim(lda), dim(ldb));
    let a = from_raw_parts(A, need(lda, n, n));
    let b = from_raw_parts_mut(B, need(ldb, n, nrhs));
    *info = 0;
    match u {
        b'L' => refla::cholesky_lower_solve(n, nrhs, a, lda, b, ldb),
        b'U' => {
            let mut t = vec![0.0; n * n];
            for j in 0..n {
                for i in 0..=j {
                    t[j + i * n] = a[i + j * lda];
                }
            }
            refla::cholesky_lower_solve(n, nrhs, &t, n, b, ldb)
        }
        _ => panic!("reflapack: bad uplo"),
    }
}

#[no_mangle]
pub unsafe extern "C" fn dsyevr_(
    jobz: *const c_char,
    range: *const c_char,
    uplo: *const c_char,
    n: *const c_int,
    A: *mut f64,
    lda: *const c_int,
    _vl: *const f64,
    _vu: *const f64,
    _il: *const c_int,
    _iu: *const c_int,
    _abstol: *const f64,
    m: *mut c_int,
    W: *mut f64,
    Z: *mut f64,
    ldz: *const c_int,
    ISUPPZ: *mut c_int,
    work: *mut f64,
    lwork: *const c_int,
    iwork: *mut c_int,
    liwork: *const c_int,
    info: *mut c_int,
) {
    let (jz, rg, ul) = (ch(jobz), ch(range), ch(uplo));
    assert!(rg == b'A', "reflapack: dsyevr only supports range='A'");
    let (n, lda, ldz) = (dim(n), dim(lda), dim(ldz));
    *info = 0;
    let (lw, liw) = (*lwork, *liwork);
    let (minw, miniw) = ((26 * n).max(1), (10 * n).max(1));
    if lw == -1 || liw == -1 {
        let work = from_raw_parts_mut(work, 1);
        let iwork = from_raw_parts_mut(iwork, 1);
        work[0] = minw as f64;
        iwork[0] = miniw as c_int;
        return;
    }
    assert!(lw as usize >= minw && liw as usize >= miniw, "reflapack: dsyevr workspace too small");
    // touch the declared workspace so that a too-short buffer is visible
    let work = from_raw_parts_mut(work, lw as usize);
    let iwork = from_raw_parts_mut(iwork, liw as usize);
    work[0] = minw as f64;
    iwork[0] = miniw as c_int;
    let a = from_raw_parts_mut(A, need(lda, n, n));
    let w = from_raw_parts_mut(W, n);
    let mut full = vec![0.0; n * n];
    for j in 0..n {
        for i in 0..=j {
            let v = if ul == b'U' { a[i + j * lda] } else { a[j + i * lda] };
            full[i + j * n] = v;
            full[j + i * n] = v;
        }
    }
    let (ev, vec) = refla::jacobi_eig_sym(n, &full);
    w.copy_from_slice(&ev);
    *m = n as c_int;
    if jz == b'V' {
        let z = from_raw_parts_mut(Z, need(ldz, n, n));
        let isuppz = from_raw_parts_mut(ISUPPZ, 2 * n);
        for j in 0..n {
            for i in 0..n {
                z[i + j * ldz] = vec[i + j * n];
            }
            isuppz[2 * j] = 1;
            isuppz[2 * j + 1] = n as c_int;
        }
    } else {
        assert!(jz == b'N', "reflapack: bad jobz");
    }
}

unsafe fn svd_common(
    m: usize,
    n: usize,
    A: *mut f64,
    lda: usize,
    S: *mut f64,
    U: *mut f64,
    ldu: usize,
    VT: *mut f64,
    ldvt: usize,
) {
    let k = m.min(n);
    let a = from_raw_parts_mut(A, need(lda, m, n));
    let s = from_raw_parts_mut(S, k);
    let u = from_raw_parts_mut(U, need(ldu, m, k));
    let vt = from_raw_parts_mut(VT, need(ldvt, k, n));
    let mut dense = vec![0.0; m * n];
    for j in 0..n {
        for i in 0..m {
            dense[i + j * m] = a[i + j * lda];
        }
    }
    let (sv, uu, vv) = refla::jacobi_svd(m, n, &dense);
    s.copy_from_slice(&sv);
    for j in 0..k {
        for i in 0..m {
            u[i + j * ldu] = uu[i + j * m];
        }
    }
    for j in 0..n {
        for i in 0..k {
            vt[i + j * ldvt] = vv[i + j * k];
        }
    }
    // LAPACK destroys A on exit; make that observable
    for v in a.iter_mut() {
        *v = f64::NAN;
    }
}

#[no_mangle]
pub unsafe extern "C" fn dgesdd_(
    jobz: *const c_char,
    m: *const c_int,
    n: *const c_int,
    A: *mut f64,
    lda: *const c_int,
    S: *mut f64,
    U: *mut f64,
    ldu: *const c_int,
    VT: *mut f64,
    ldvt: *const c_int,
    work: *mut f64,
    lwork: *const c_int,
    iwork: *mut c_int,
    info: *mut c_int,
) {
    assert!(ch(jobz) == b'S', "reflapack: dgesdd only supports jobz='S'");
    let (m, n) = (dim(m), dim(n));
    *info = 0;
    let k = m.min(n);
    let minw = (4 * k * k + 7 * k + m.max(n)).max(1);
    if *lwork == -1 {
        from_raw_parts_mut(work, 1)[0] = minw as f64;
        return;
    }
    assert!(*lwork as usize >= minw, "reflapack: dgesdd workspace too small");
    from_raw_parts_mut(work, *lwork as usize)[0] = minw as f64;
    let iw = from_raw_parts_mut(iwork, 8 * k);
    for v in iw.iter_mut() {
        *v = 0;
    }
    svd_common(m, n, A, dim(lda), S, U, dim(ldu), VT, dim(ldvt));
}

#[no_mangle]
pub unsafe extern "C" fn dgesvd_(
    jobu: *const c_char,
    jobvt: *const c_char,
    m: *const c_int,
    n: *const c_int,
    A: *mut f64,
    lda: *const c_int,
    S: *mut f64,
    U: *mut f64,
    ldu: *const c_int,
    VT: *mut f64,
    ldvt: *const c_int,
    work: *mut f64,
    lwork: *const c_int,
    info: *mut c_int,
) {
    assert!(ch(jobu) == b'S' && ch(jobvt) == b'S', "reflapack: dgesvd only supports 'S','S'");
    let (m, n) = (dim(m), dim(n));
    *info = 0;
    let k = m.min(n);
    let minw = (3 * k + m.max(n)).max(5 * k).max(1);
    if *lwork == -1 {
        from_raw_parts_mut(work, 1)[0] = minw as f64;
        return;
    }
    assert!(*lwork as usize >= minw, "reflapack: dgesvd workspace too small");
    from_raw_parts_mut(work, *lwork as usize)[0] = minw as f64;
    svd_common(m, n, A, dim(lda), S, U, dim(ldu), VT, dim(ldvt));
}

#[no_mangle]
pub unsafe extern "C" fn dgesv_(
    n: *const c_int,
    nrhs: *const c_int,
    A: *mut f64,
    lda: *const c_int,
    ipiv: *mut c_int,
    B: *mut f64,
    ldb: *const c_int,
    info: *mut c_int,
) {
    let (n, nrhs, lda, ldb) = (dim(n), dim(nrhs), dim(lda), dim(ldb));
    let a = from_raw_parts_mut(A, need(lda, n, n));
    let b = from_raw_parts_mut(B, need(ldb, n, nrhs));
    let ipiv = from_raw_parts_mut(ipiv, n);
    *info = 0;
    match refla::lu_inplace(n, a, lda, ipiv) {
        Ok(()) => refla::lu_solve(n, nrhs, a, lda, ipiv, b, ldb),
        Err(k) => *info = k as c_int,
    }
}

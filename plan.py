"""Per-property run plans: which flavours/shards/scales each tier runs, the oracle in one sentence
(evidence `rule`), and the assumptions / trusted base."""

BASE_ASSUME = [
    "vkit oracles (double-double arithmetic, dense models, Jacobi eigen/SVD in refla) are correct; they are self-tested by `./setup.sh`",
    "the Rust toolchain, serde_json and the test machine's IEEE-754 arithmetic",
    "reach is limited to the generated inputs: held on the executions observed, not a proof",
]
PSD_ASSUME = ["PSD code paths run against refblas (pure-Rust reference BLAS/LAPACK stubs patched in for blas-src/lapack-src)"]


def runs(quick, thorough):
    return {"quick": quick, "thorough": thorough}


MON16 = {"flavour": "mon", "shards": 16}

PLAN = {}

PLAN["C16"] = {
    "rule": "every public CscMatrix operation is run on all sparsity patterns of shapes <=3x3 and 4x3 (values in {-2..2}, exact arithmetic => exact "
            "equality with a dense row-major model), on all triplet sequences over a 2x2 grid up to length 4 (quick) / 5 (thorough), on random "
            "larger shapes (1e-13 relative), and check_format/canonicalize on every small encoding (m,n<=2, colptr entries<=4, <=3 rows); a case is "
            "non-trivial/distinct when it is a distinct (shape, pattern) / triplet sequence / encoding / random matrix (content hash)",
    "assumptions": BASE_ASSUME + ["gemv/symv are reached through thin public wrappers added under the `verif` feature"],
    "runs": runs(
        [dict(MON16, budget=120), {"flavour": "miri", "shards": 8, "budget": 200, "timeout": 900}],
        [dict(MON16, budget=600), {"flavour": "asan", "shards": 16, "scale": 0.3, "budget": 600},
         {"flavour": "miri", "shards": 16, "budget": 600, "timeout": 2400}],
    ),
}

PLAN["C12"] = {
    "rule": "public clarabel::qdldl API: every triu pattern for n<=4 x all n! orderings x all 2^n D-sign vectors (exact small-integer data) plus float data "
            "with regularisation off and AMD ordering; planted wrong-sign/zero/tiny pivots; exact zero pivots; all vectors in {0..n}^n (n<=4) as "
            "candidate permutations; random banded/arrow/block/KKT matrices (n<=60 quick, 120 thorough); update/scale/offset/refactor histories. "
            "Oracles: double-double dense reference LDL' with the same regularisation rule (decisions inside the f64 rounding band are don't-care), "
            "reconstruction |PAP'-LDL'|<=c n u |L||D||L'|, solve residual, inertia=#D>0=#positive eigenvalues, regularised pivots = delta*sign exactly and "
            "counted, refactor bit-identical to a fresh factorisation, error contract (Err never Ok). distinct = distinct (n,pattern) / vector / matrix hash",
    "assumptions": BASE_ASSUME + ["forward comparison of individual pivots is made only under bounded growth (accumulated mag/|D| <= 1e8)"],
    "runs": runs(
        [dict(MON16, budget=120), {"flavour": "miri", "shards": 16, "budget": 300, "timeout": 1200}],
        [dict(MON16, budget=600), {"flavour": "asan", "shards": 16, "scale": 0.5, "budget": 600},
         {"flavour": "miri", "shards": 16, "budget": 900, "timeout": 3000}],
    ),
}

SOLVE_ASSUME = BASE_ASSUME + PSD_ASSUME + [
    "acceptance thresholds carry an explicit rounding slack 64*u*(n+m+3)*|terms|/denominator; a solver honestly at 0.999*tol is never accused",
]

PLAN["C01"] = {
    "rule": "planted strictly feasible conic QPs (all cone kinds incl. PSD via refblas, sizes n<=25, m<=70, magnitudes 1e-1..1e1 and 1e-3..1e3, planted infinite bounds, "
            "ill-posed instances in 15%) x random settings (tolerances, equilibration on/off/bounds, presolve, static/dynamic regularisation, iterative refinement, "
            "qdldl/auto/faer); every `Solved` result is re-evaluated in double-double on the user's data: normalised residuals < tol_feas, gap test, s in K, z in K*, "
            "dropped rows (s=bound,z=0), weak-duality sandwich against the planted pair; non-trivial = distinct problem that ended Solved",
    "assumptions": SOLVE_ASSUME,
    "min_nontrivial": 50,
    "runs": runs(
        [dict(MON16, budget=150)],
        [dict(MON16, budget=900), {"flavour": "asan", "shards": 16, "scale": 0.08, "budget": 600},
         {"flavour": "miri", "shards": 16, "budget": 1200, "timeout": 3600}],
    ),
}

PLAN["C01"]["runs"]["quick"][0]["budget"] = 200

PLAN["C02"] = {
    "rule": "strongly primal-infeasible (A'z=0, b'z=-1 planted) and strongly dual-infeasible (Px=0, Ax+s=0, q'x=-1 planted) problems over all cone kinds, 40% with "
            "cone-preserving row/column rescaling over up to 8 decades, x random settings with equilibration extremes; every (Almost)Primal/DualInfeasible verdict is "
            "re-evaluated in double-double on the user's data: z in K*, b'z<0 (resp. s in K, q'x<0), the documented scale-dependent tests re-computed from the returned "
            "certificate with the final kappa (observer) and the public equilibration constant c, objectives NaN; non-trivial = distinct problem that ended with an infeasibility verdict",
    "assumptions": SOLVE_ASSUME + ["final (tau,kappa) are read through the read-only observer hook"],
    "min_nontrivial": 50,
    "runs": runs([dict(MON16, budget=150)], [dict(MON16, budget=900), {"flavour": "asan", "shards": 16, "scale": 0.1, "budget": 600}]),
}

PLAN["C03"] = {
    "rule": "planted / infeasible / badly scaled problems x random settings x engineered budgets (max_iter 0..14, time_limit 0, unreachable tolerances) so that every terminal "
            "status occurs; after each solve: lengths, solution.status==info.status, iterations<=max_iter and consistent with the observed iteration indices, "
            "obj_val/obj_val_dual recomputed in double-double from the returned vectors (tolerance = f64 rounding bound of the sum of |terms|), r_prim/r_dual = documented "
            "normalised residuals of the de-homogenised returned point, Solved/AlmostSolved meet the full/reduced tolerances, Almost*Infeasible meet the reduced certificate test; "
            "non-trivial = distinct (problem, settings) solved; per-status counts are in `counters`",
    "assumptions": SOLVE_ASSUME,
    "min_nontrivial": 100,
    "runs": runs([dict(MON16, budget=150)], [dict(MON16, budget=900), {"flavour": "asan", "shards": 16, "scale": 0.1, "budget": 600}]),
}

PLAN["C04"] = {
    "rule": "degenerate shapes (m=0, n=1, A=0, P=0, empty and singleton cones, duplicated rows, infeasible, unbounded, no strict interior, magnitudes 1e+-150, zero rows/cols) x "
            "max_iter in {0..5,200} x time_limit in {0,1e-9,1e-4,inf} x random settings, planted problems with default/random settings, a regression corpus, and 7 kinds of "
            "dimension mismatch; oracle: no panic (each shard is a subprocess; panics are caught per case and keyed by panic site), terminal status, iterations<=max_iter, number of "
            "iteration events <= max_iter+2, no iteration index beyond the first event whose own clock value exceeds time_limit, documented construction panic on mismatches",
    "assumptions": SOLVE_ASSUME + ["'never hangs' is restated as bounded progress: logical event bound plus a wall-clock watchdog whose firing is inconclusive"],
    "min_nontrivial": 100,
    "runs": runs([dict(MON16, budget=200)], [dict(MON16, budget=1200), {"flavour": "asan", "shards": 16, "scale": 0.05, "budget": 600}]),
}

PLAN["C07"] = {
    "rule": "planted/infeasible problems incl. nonsymmetric cones x max_step_fraction in {0.5,0.9,0.99,0.999} x backtracking step in {0.5,0.8,0.95}: every observed iterate has "
            "tau,kappa>0, s strictly in K and z strictly in K* (harness predicates on the internal cone list, 1e-13 relative allowance, zero-cone slack exactly 0), every accepted "
            "step has alpha in (0,1]; for k=0..min(iterations,25|40) a run limited to max_iter=k ends on an internal iterate bit-identical to the long run's k-th iterate and "
            "returns it un-scaled with the public equilibration and tau (kappa) to 8 ulp; non-trivial = distinct problem",
    "assumptions": SOLVE_ASSUME + ["internal iterates are read through the read-only observer hook; bitwise comparison is between two executions of the code under test"],
    "min_nontrivial": 40,
    "runs": runs([dict(MON16, budget=200, scale=4.0)], [dict(MON16, budget=1200, scale=2.0), {"flavour": "asan", "shards": 16, "scale": 0.1, "budget": 600}]),
}

PLAN["C09"] = {
    "rule": "planted problems with +infinity-like b entries (=bound, bound(1+1e-12), 2*bound, 1e30, f64::MAX, just below the bound) placed in nonnegative cones (some, all of a cone, "
            "all rows of the problem) and in other cone kinds, custom bounds via set_infinity (restored afterwards), presolve on/off; model: dropped set = NN rows with b>=bound at "
            "construction; checks: lengths, data.m = m-|D|, z=0 and s=bound at dropped rows, nothing dropped outside NN / with presolve off, kept entries pass the C01 oracle for the "
            "hand-reduced problem and agree with a presolve-off solve of it (bitwise agreement logged); histories of set_infinity/default_infinity with several solvers built at "
            "different points and solved later; non-trivial = distinct problem with at least one planted entry",
    "assumptions": SOLVE_ASSUME + ["SOC(1)/PSD(1) singleton rows at or above the bound are accepted either dropped or capped (the property text can be read both ways)"],
    "min_nontrivial": 50,
    "runs": runs([dict(MON16, budget=150)], [dict(MON16, budget=900), {"flavour": "asan", "shards": 16, "scale": 0.1, "budget": 600}]),
}

# ---------------------------------------------------------------------------------------------
# C06: statistical verdict from the merged counters.  Envelope fixed once from the unchanged tree
# (calibration: thorough run, seed 1, N=6399 on 2026-10-02: 6364 Solved (99.45%), iterations of Solved
# runs mean 12.24, p95 21, max 32; per stratum mean/p95: Zero 11.39/20 NN 12.12/21 SOC 11.88/20
# Exp 13.16/21 Pow 13.34/21 GenPow 16.78/23 PSD 12.22/21).  Margins: mean +25%, p95 +max(3, 25%).
# ---------------------------------------------------------------------------------------------
C06_CAL = {"all": (12.24, 21), "Zero": (11.39, 20), "NN": (12.12, 21), "SOC": (11.88, 20), "Exp": (13.16, 21),
           "Pow": (13.34, 21), "GenPow": (16.78, 23), "PSD": (12.22, 21)}


def _binom_tail(n, k, p):
    """P[X >= k] for X ~ Bin(n, p)"""
    import math
    if k <= 0:
        return 1.0
    lp, lq = math.log(p), math.log1p(-p)
    tot = 0.0
    for i in range(k, n + 1):
        t = math.lgamma(n + 1) - math.lgamma(i + 1) - math.lgamma(n - i + 1) + i * lp + (n - i) * lq
        tot += math.exp(t)
        if i > k + 200 and math.exp(t) < 1e-30:
            break
    return min(1.0, tot)


def _hist_stats(counters, prefix):
    h = sorted((int(k[len(prefix):]), v) for k, v in counters.items() if k.startswith(prefix))
    tot = sum(v for _, v in h)
    if tot == 0:
        return None
    acc, p95 = 0, None
    for it, v in h:
        acc += v
        if p95 is None and acc >= 0.95 * tot:
            p95 = it
    return {"mean": sum(it * v for it, v in h) / tot, "p95": p95, "max": h[-1][0], "n": tot}


def c06_post(merged, tier):
    c = merged["counters"]
    out = []
    N = c.get("N", 0) + c.get("outcome_panic", 0)
    k = c.get("not_solved", 0) + c.get("outcome_panic", 0)
    stats = {"N": N, "not_solved": k, "rate": (k / N if N else None)}
    if N:
        tail = _binom_tail(N, k, 0.005)
        stats["binomial_tail_p0.005"] = tail
        if k / N > 0.005 and tail < 1e-5:
            # the signature carries the band of the observed rate, so that the recorded finding (0.5%..1.2% on the
            # unchanged tree, see known_findings.json) does not hide a larger regression
            # (the recorded finding is a rate of 0.7-0.8 %; "above" is decided statistically, not by the point
            # estimate: at N = 2400 the count fluctuates by +-4.3 around 18, and 29 of 2400 = 1.2 % turned up at
            # seed 21 of a 25-seed sweep of the unchanged tree.  The band is "above" when the count is incompatible
            # with a true rate of 0.9 % (tail < 1e-4), e.g. >= 41 of 2400 or >= 89 of 6400.)
            band = "above1.2pct" if _binom_tail(N, k, 0.009) < 1e-4 else "upto1.2pct"
            out.append({"oracle": "solved_rate", "sig": f"solved_rate:{band}",
                        "detail": {"N": N, "not_solved": k, "rate": k / N, "tail_probability_under_0.5pct": tail,
                                   "not_solved_by_stratum": {n: c.get(f"stratum_{n}_not_solved", 0) for n in C06_CAL if n != "all"}}})
    strata = {}
    for name, (cm, cp) in C06_CAL.items():
        pre = "iters_hist_" if name == "all" else f"stratum_{name}_hist_"
        st = _hist_stats(c, pre)
        if not st or st["n"] < 30:
            continue
        lim_mean = cm * 1.25
        lim_p95 = cp + max(3, 0.25 * cp)
        st["limit_mean"], st["limit_p95"] = lim_mean, lim_p95
        strata[name] = st
        if st["mean"] > lim_mean:
            out.append({"oracle": "iterations_mean", "sig": f"iterations_mean:{name}", "detail": dict(st, stratum=name)})
        if st["p95"] > lim_p95:
            out.append({"oracle": "iterations_p95", "sig": f"iterations_p95:{name}", "detail": dict(st, stratum=name)})
        if name != "all":
            ns, nn = c.get(f"stratum_{name}_not_solved", 0), c.get(f"stratum_{name}_N", 0)
            if nn and _binom_tail(nn, ns, 0.02) < 1e-6:
                out.append({"oracle": "solved_rate_stratum", "sig": f"solved_rate_stratum:{name}",
                            "detail": {"stratum": name, "N": nn, "not_solved": ns}})
    # conjunction strata (no iteration envelope: only the not-Solved rate against 2 %)
    for key in sorted(c):
        if key.startswith("stratum_") and key.endswith("_N"):
            name = key[len("stratum_"):-2]
            if name in C06_CAL:
                continue
            ns, nn = c.get(f"stratum_{name}_not_solved", 0), c[key]
            strata[name] = {"n": nn, "not_solved": ns}
            if nn and _binom_tail(nn, ns, 0.02) < 1e-6:
                out.append({"oracle": "solved_rate_stratum", "sig": f"solved_rate_stratum:{name}",
                            "detail": {"stratum": name, "N": nn, "not_solved": ns}})
    merged["maxima"]["not_solved_rate"] = stats["rate"] or 0.0
    merged["notes"].append("C06 statistics: " + __import__("json").dumps({"overall": stats, "strata": strata}))
    return out


PLAN["C06"] = {
    "rule": "family G = planted strictly feasible conic QPs, generator-classified well posed (equality rows and [P;A] of full rank with smin/smax>=1e-6), sizes n<=60, m<=150, all cone "
            "mixtures incl. PSD, entry magnitudes <=1e3, DEFAULT settings; verdict is statistical with fixed thresholds: violated iff not-Solved count k has k/N>0.5% and binomial tail "
            "P[X>=k|p=0.005]<1e-5, or mean / 95th percentile of iteration counts (overall or per cone-kind stratum) exceeds the envelope calibrated on the unchanged tree (+25% / +max(3,25%)), "
            "or a stratum's not-Solved count is incompatible with a 2% rate (tail<1e-6); non-trivial = distinct instance",
    "assumptions": SOLVE_ASSUME + ["the claim is about family G as implemented in vkit::gen / c06::family_g, nothing wider", "envelope constants recorded in plan.py with their calibration run"],
    "min_nontrivial": 300,
    "post": c06_post,
    "runs": runs([dict(MON16, budget=300, scale=16.0)], [dict(MON16, budget=1200, scale=4.0)]),
}

CONE_ASSUME = BASE_ASSUME + PSD_ASSUME + ["cone objects are driven through the `verif` re-exports of the crate's own cone types and traits"]

PLAN["C10"] = {
    "rule": "solver construction only (no solve): planted problems and a scaling-torture family (rows/columns over up to 30 decades, zero rows/columns, single 1e25 entry, empty P, P full or "
            "triu, q=0) x equilibrate_max_iter in {0..20} x (min,max) scaling bounds; oracle on the public solver.data: d,e,c finite>0, dinv*d=1, pattern unchanged, every stored entry = "
            "c d_i P_ij d_j / e_i A_ij d_j / c d_j q_j / e_i min(b_i,bound) to (8+4*iters) ulp, all factors within [min,max] (4u), zero columns d=1 and zero scalar-cone rows e=1 exactly, "
            "e uniform inside non-scalar cones (8u), disabled => data bitwise untouched; non-trivial = distinct (problem, settings)",
    "assumptions": BASE_ASSUME + PSD_ASSUME,
    "min_nontrivial": 100,
    "runs": runs([dict(MON16, budget=120), {"flavour": "miri", "shards": 8, "budget": 200, "timeout": 900}],
                 [dict(MON16, budget=600), {"flavour": "asan", "shards": 16, "scale": 0.2, "budget": 600}, {"flavour": "miri", "shards": 16, "budget": 600, "timeout": 2400}]),
}

PLAN["C13"] = {
    "rule": "cone objects (NN dim 1..30, SOC dim 2..40 in both dense and sparse-expanded representations, PSD order 1..8 through refblas) at interior (s,z) with independent magnitudes "
            "1e-6..1e6 and relative boundary distance 1 .. 1e-8: Wz=W^-T s, (W'W)z=s, W/Winv mutually inverse in both shapes with alpha/beta semantics, <Wx,y>=<x,W'y>, mul_Hs=W'W, "
            "affine_ds=lambda o lambda, circ_op = Jordan product by definition, lambda o (lambda\\v)=v, y o (y\\z)=z, combined_ds_shift = Winv ds o W dz - sigma mu e, "
            "lambda o W^-T(ds-offset)=ds, KKT block (diagonal / packed dense / D+eta^2(uu'-vv')) = mul_Hs on unit vectors, identity scaling after an update; tolerance 1e-12*cond(s)cond(z); "
            "non-trivial = distinct point",
    "assumptions": CONE_ASSUME,
    "min_nontrivial": 1000,
    "runs": runs([dict(MON16, budget=120), {"flavour": "miri", "shards": 8, "budget": 200, "timeout": 900}],
                 [dict(MON16, budget=600), {"flavour": "asan", "shards": 16, "scale": 0.1, "budget": 600}, {"flavour": "miri", "shards": 16, "budget": 600, "timeout": 2400}]),
}

PLAN["C15"] = {
    "rule": "step_length of every cone kind (NN, SOC, PSD with the scaling of the same (s,z), Exp, Pow, GenPow) and of composite cones at interior points (boundary distance down to 1e-8) "
            "with random / inward / outward / through-apex / tangent / coordinate / zero / exactly-on-boundary-ray directions (all SOC quadratic branches counted), alpha_max in {1,.99,.5,1e-3}, "
            "backtracking step in {.5,.8,.95}: returned alpha in [0,alpha_max]; stepped point inside the cone by the harness predicate (allowance 1e-12+256u/rel.margin(x)); symmetric cones: "
            "alpha >= (1-1e-6) x exact boundary distance found by bisection on the harness predicate; nonsymmetric: alpha on the grid alpha_max*step^k and the previous trial outside, zero only "
            "when the grid falls below min_terminate_step_length; composite: safe for all cones and within one backtracking factor of the exact distance over all cones; margins = (min, positive "
            "sum) of the oracle spectrum; symmetric_initialization of arbitrary vectors lands strictly inside (zero cone: s=0, z untouched), tau=kappa=1; unit shift moves the margin by the shift",
    "assumptions": CONE_ASSUME + ["the composite is judged on the property's statement (safe, <= max, within one backtracking factor), not on the order in which cones are visited"],
    "min_nontrivial": 1000,
    "runs": runs([dict(MON16, budget=150), {"flavour": "miri", "shards": 8, "budget": 200, "timeout": 900}],
                 [dict(MON16, budget=900), {"flavour": "asan", "shards": 16, "scale": 0.1, "budget": 600}, {"flavour": "miri", "shards": 16, "budget": 600, "timeout": 2400}]),
}

PLAN["C14"] = {
    "rule": "Exp / Pow(alpha log-spaced towards 0 and 1) / GenPow(dim1 2..6, dim2 1..5) cone objects at interior z in K*, s in K (magnitudes 1e-6..1e6, relative boundary distance 1..1e-6), "
            "mu in 1e-8..1e4: the dual barriers are written in the harness from their definitions and differentiated by truncated Taylor arithmetic over double-double (no finite differences): "
            "membership predicates, barrier_dual value, stored gradient and Hessian (GenPow: D+pp'-qq'-rr'), Hs=mu*H under dual scaling and mul_Hs agreeing with it, conjugacy "
            "grad f*(-gradient_primal(s)) = -s and barrier_primal = -f*(-g)-nu, higher_correction = 1/2 D3f*(z)[H^-1 ds, v] by polarisation of the cubic form, primal-dual scaling symmetric "
            "positive definite and either both secant equations or the mu*H fallback (never neither), unit initialisation central with mu=1; tolerances scale with 1/(relative boundary distance)",
    "assumptions": CONE_ASSUME + ["conjugacy tolerance 1e-7 x conditioning is derived from the implementation's documented sqrt(eps) stopping rule"],
    "min_nontrivial": 500,
    "runs": runs([dict(MON16, budget=150), {"flavour": "miri", "shards": 8, "budget": 200, "timeout": 900}],
                 [dict(MON16, budget=900), {"flavour": "asan", "shards": 16, "scale": 0.1, "budget": 600}, {"flavour": "miri", "shards": 16, "budget": 600, "timeout": 2400}]),
}

PLAN["C11"] = {
    "rule": "assembly: random triu P patterns (empty / diagonal only / off-diagonal only / mixed), random A, cone lists mixing Zero, NN, SOC below and above the sparse-expansion threshold, "
            "Exp, Pow, GenPow, PSD, in BOTH triangle layouts: K square of order n+m+p, canonical, inside the requested triangle, every P/A entry at the coordinate and with the value the map "
            "records, Hs blocks in the documented packing (diagonal / column-major packed triangle, transposed for tril), sparse-expansion vectors in their own auxiliary row/column over "
            "the right cone rows, all index sets disjoint and covering nnz with only structural-zero diagonal fill left, diag_full/diagP exact. live: solvers stopped after 1..9 iterations "
            "(qdldl=triu, faer=tril): KKT copy holds the user's P,A bitwise and unregularised, eliminating the auxiliary variables reproduces [P A';A -H] with H taken column by column from "
            "the cones' own mul_Hs (1e-9), the engine's private copy differs from the KKT copy exactly by +-eps*dsigns on the full diagonal, recorded signs = (+n,-m,expansion signs) and "
            "equal the pivot signs of QDLDL's D; non-trivial = distinct layout / live problem",
    "assumptions": CONE_ASSUME + ["live state is read through the read-only KKT snapshot hook"],
    "min_nontrivial": 200,
    "runs": runs([dict(MON16, budget=120), {"flavour": "miri", "shards": 8, "budget": 200, "timeout": 900}],
                 [dict(MON16, budget=600), {"flavour": "asan", "shards": 16, "scale": 0.2, "budget": 600}, {"flavour": "miri", "shards": 16, "budget": 600, "timeout": 2400}]),
}

PLAN["C17"] = {
    "rule": "the real analysis (ChordalInfo::new through the verif wrapper) on a PSD cone whose aggregate [A b] pattern is a given graph (entries marked through A, through b with either sign, or "
            "both; diagonal partly absent): ALL graphs on 2..5 vertices (quick) / 2..6 (thorough; 7 with VERIF_C17_FULL=1) x merge in {none, parent_child, clique_graph}, random banded / arrow / "
            "block-diagonal / disconnected / random-chordal (random perfect elimination order) / non-chordal graphs up to 120 (quick) / 400 (thorough) vertices; oracle from graph definitions: "
            "ordering is a permutation, supernodes partition the vertices into consecutive ranges, cliques mapped through the ordering cover every nonzero and the diagonal, one rooted tree with "
            "post a post-order, separator = clique ∩ parent clique, running intersection, nblk = clique sizes, dense patterns undecomposed, no panic, no stall; plus the union-find used by the "
            "clique-graph merge against a naive label model on random union/query histories",
    "assumptions": BASE_ASSUME + PSD_ASSUME + ["'terminates' is judged by the driver: a shard that stalls or exhausts its 12 GB address-space cap has its current case re-run alone; only a second failure is a violation",
                                             "for merge 'none' the clause 'undecomposed only if the fill is complete' is not judged (the ordering is not exposed when undecomposed); such outcomes are counted"],
    "min_nontrivial": 200,
    "runs": runs([dict(MON16, budget=150, timeout=300), {"flavour": "miri", "shards": 8, "budget": 200, "timeout": 600}],
                 [dict(MON16, budget=900, timeout=2400), {"flavour": "asan", "shards": 16, "scale": 0.2, "budget": 600}, {"flavour": "miri", "shards": 16, "budget": 600, "timeout": 2400}]),
}

PLAN["C18"] = {
    "rule": "planted strictly feasible problems with 1..3 sparse PSD constraints (banded / arrow / linked-block / random chordal patterns, order 4..10) mixed with NN/Zero/SOC/Exp cones before and "
            "after them and optional infinite NN bounds, x compact/standard x merge in {none,parent_child,clique_graph} x complete_dual x presolve. synthetic (through the verif wrappers around the "
            "real augment/reverse): P,q preserved, for random augmented x (overlap variables arbitrary) the reversed slack equals b-Ax on every original row, generated cone list / H / cone_maps "
            "consistent with the clique trees, consistent clique blocks of a full dual matrix are mapped back to it on the pattern, completion is PSD and leaves clique entries unchanged, sizes are "
            "the original n,m. end to end: decomposition on vs off give the same verdict class and objectives, and the returned point meets the C01 oracle on the ORIGINAL problem with "
            "tolerances relaxed by c=10*sqrt(#added rows+1); completed dual in K* to 1e-6*c*scale",
    "assumptions": SOLVE_ASSUME + ["membership of the completed dual is measured against the scale of the whole dual vector (the completion is numerical)"],
    "min_nontrivial": 100,
    "runs": runs([dict(MON16, budget=200, scale=2.0), {"flavour": "miri", "shards": 8, "budget": 300, "timeout": 1200}],
                 [dict(MON16, budget=1200), {"flavour": "asan", "shards": 16, "scale": 0.2, "budget": 600}, {"flavour": "miri", "shards": 16, "budget": 900, "timeout": 3000}]),
}

PLAN["C08"] = {
    "rule": "histories (length 1..12) over well-posed planted problems with all cone kinds, equilibration on/off, qdldl/faer: update_P/q/A/b in every argument form (whole vector, matrix with "
            "identical pattern, unsorted (index,value) tuples with repeats across columns, empty, wrong length, out-of-range index, pattern mismatch), update_data, and solves; a slice with the "
            "presolver active (everything rejected). Sequential model = four plain arrays; after every call: Ok/Err and error kind as predicted, rejected whole forms and empty forms leave "
            "solver.data bitwise untouched, internal data = c*D*P*D, c*D*q, E*A*D, E*b of the model with the stored equilibration (64 ulp), KKT copy and engine copy in sync with it (bitwise, "
            "through the snapshot hook); at every solve: the live result passes the C01 oracle and the reported figures agree with recomputation AGAINST THE MODEL DATA, and a freshly built "
            "solver on the model data gives the same verdict class and objective; non-trivial = distinct history",
    "assumptions": SOLVE_ASSUME + ["P updates are restricted to PSD-preserving ones (positive-diagonal congruence, raised diagonal entries)"],
    "min_nontrivial": 100,
    "runs": runs([dict(MON16, budget=200, scale=2.0)],
                 [dict(MON16, budget=1200), {"flavour": "asan", "shards": 16, "scale": 0.15, "budget": 600}, {"flavour": "miri", "shards": 16, "budget": 900, "timeout": 3000}]),
}

PLAN["C05"] = {
    "rule": "for each base problem (well-posed planted / strongly primal / strongly dual infeasible, all cone kinds) 10 (quick) / 16 (thorough) equivalent variants composed at random from: "
            "column permutation, cone reordering, row permutation inside zero/nonnegative cones, SOC tail permutation, NN split and merge, P full vs triu, positive objective scaling, presolve and "
            "equilibration toggles, qdldl/auto/faer, max_threads 1/2/8; every solution is mapped back to the original variables and re-evaluated in double-double on the ORIGINAL data: verdict "
            "classes coincide, for every ordered pair of solved runs d_j - p_i <= |r_d^j.x_i| + |r_p^i.z_j| + max(0,-s_i.z_j) + rounding (exact weak-duality identity) and |p_i-p_j| <= gap_i + "
            "the same slack; identical calls (same solver solved three times, a fresh solver) are compared bit for bit; 16 threads solve a mix of identical and different problems after a "
            "barrier with randomised delays between construction, solve and read-out while another thread flips the module-level infinity bound between two values far above every |b|: each "
            "concurrent result must equal the sequential reference bit for bit (distinct interleavings of (construct,solve,read) events are counted)",
    "assumptions": SOLVE_ASSUME + ["'all schedules' is limited to the interleavings the stress harness (and TSan in the thorough tier) happened to produce"],
    "min_nontrivial": 100,
    "runs": runs([dict(MON16, budget=200, scale=2.0)],
                 [dict(MON16, budget=1200), {"flavour": "rel", "shards": 16, "scale": 0.3, "budget": 600},
                  {"flavour": "tsan", "shards": 4, "scale": 0.2, "budget": 900, "timeout": 3000}]),
}

PLAN["C19"] = {
    "rule": "round trip: small problems over all cone kinds (extreme finite values, empty P, presolve reductions in a slice) with EVERY settings field perturbed, some with the public settings "
            "field edited after construction; the file is parsed by the harness (serde_json::Value): P(triu), q, A, b equal the user's data to 96 ulp (bitwise with equilibration off), same "
            "patterns, cones = the user's list after the harness's own consolidation; loading reproduces the settings field by field (time_limit=inf included), loaded and original solves "
            "agree in verdict and objective, a settings argument at load time overrides the stored one. fault sequence: for 6 (quick) / 40 (thorough) valid files, at EVERY byte offset: "
            "truncation, deletion, duplication, replacement by each of 0 9 - . , : [ ] { } \" e and a random byte; outcome must be Err or Ok of a well-formed solver (2% of accepted files are "
            "also solved for 3 iterations); a panic is a violation keyed by its panic site",
    "assumptions": SOLVE_ASSUME,
    "min_nontrivial": 100,
    "runs": runs([dict(MON16, budget=200)],
                 [dict(MON16, budget=1200), {"flavour": "asan", "shards": 16, "scale": 0.3, "budget": 900}, {"flavour": "miri", "shards": 16, "budget": 900, "timeout": 3000}]),
}

PLAN["C20"] = {
    "rule": "problems reaching every terminal status (planted / infeasible / badly scaled, infinite bounds, max_iter 0..12, unreachable tolerances, finite time limits) solved once per target: "
            "buffer, stream (a counting Write), file, sink, and stdout of a child process (every 8th case); verbose off => zero bytes on buffer, stream and stdout; verbose on => bytes "
            "identical on buffer, stream, file and stdout after masking the single `solve time` line; results bit-identical whatever the target, sink reports no buffer; the text is parsed: banner, "
            "iteration column starts at 0, never decreases, steps by at most 1 and ends at solution.iterations, footer status = solution.status, last row agrees at print precision with info's "
            "final values and (non-infeasible statuses) with solution.obj_val/obj_val_dual/r_prim/r_dual, header = true internal n, m, nnz(P), nnz(A), cone count, per-type cone lines = recount "
            "of the internal cone list, presolve line = m_user - internal m, every settings line matches the settings at its print precision, linear solver name and thread count",
    "assumptions": SOLVE_ASSUME + ["stdout is observed through a child process that regenerates the same case"],
    "min_nontrivial": 100,
    "runs": runs([dict(MON16, budget=200, scale=2.0)], [dict(MON16, budget=1200), {"flavour": "rel", "shards": 16, "scale": 0.3, "budget": 600}]),
}

# ---- additions made after the seeded-change rounds (DESIGN.md 11.1, 14.1, 14.2); appended to the rules above
ADDED = {
    "C02": "a quarter of the verdicts are produced by a solver object that was solved once before (first solve cut off after one iteration, leaving finite objective values behind)",
    "C03": "a quarter of the instances have the objective (P,q) rescaled by 1e2/1e4/1e6/1e-3; full and reduced tolerances are sampled independently",
    "C04": "every fifth run is verbose into an in-memory buffer (the printing code runs inside the main loop on whatever magnitudes the iterates reach); the solver's own clock must advance monotonically over the observed iterations",
    "C05": "objective scalings include 1e4, 1e6 and 1e-6; a PrimalInfeasible/DualInfeasible pair is an observation only for problems that are infeasible both ways; dissenting runs are classified by mechanism (initial-point blow-up, extreme objective scale without equilibration) for the known-findings file",
    "C07": "slices with b scaled by 1e15..1e30 and with a contradictory pair of big-M rows (M up to 1e30); nonnegative-cone components must be > 0 exactly; a third of the budget-limited prefix runs are re-solves of ONE solver object with changing max_iter",
    "C08": "a PrimalInfeasible/DualInfeasible pair between the live and the fresh solver is accepted only if both certificates pass the documented test on the model data",
    "C10": "after the construction check 1-3 in-place updates (P, A, q, b; full vectors and (index,value) pairs) are applied and the entry equations are re-checked against the updated user data (8 ulp on rewritten entries)",
    "C11": "each live snapshot is followed by a re-solve with max_iter=0 (the identity-scaling KKT system assembled over the old state) and, in a third of the cases, by fault injection: a NaN is written through update_A, a solve fails on it, A is repaired and the solver is used again; all snapshot oracles are applied after each phase",
    "C12": "pivots planted exactly on the regularisation threshold (eps in {1e-12,1e-13,1e-6,0,0.5}); refactor histories include matrices with structurally absent diagonal entries",
    "C14": "half of the cone objects were already scaled at another interior point with a random strategy before the oracles run",
    "C15": "15% of the initialisation cases contain components of magnitude 1e14..1e40 (exact positivity for orthant and second-order blocks, eigenvalue-rounding allowance for PSD blocks)",
    "C18": "a PrimalInfeasible/DualInfeasible pair between decomposition on and off is accepted only if both certificates hold by definition, and is inconclusive if the reference (off) certificate does not hold",
    "C19": "token-level corruptions at every token start (true/false/null flipped, numbers replaced by 0, -1, 1e308, 2^64-1, null, 0.5, [], a string); every corrupted file that is accepted must parse as one whole JSON document with the harness's strict parser",
    "C20": "a slice with 6-13 cones of one kind: lists of more than five dimensions must read first four, '...', last",
}
for _k, _v in ADDED.items():
    PLAN[_k]["rule"] = PLAN[_k]["rule"] + "; ADDED: " + _v

# ---- further additions (rounds 4-7 of seeded changes, DESIGN.md 14.3-14.6)
ADDED2 = {
    "C01": "a fifth of the instances have loose constraints (b += t e with t = 10..1000 on nonnegative / second-order / PSD blocks), so that the solver's initial point already has a comfortable margin",
    "C02": "a fifth of the verdicts come from a solver built on different b and q and brought to the problem under test by in-place (index,value) updates",
    "C03": "one planted instance in five has infinite right-hand sides in nonnegative rows; residual figures are not recomputed when the returned point has entries beyond 1e150",
    "C04": "time limits include 1e20, f64::MAX and the smallest subnormal; workload mixed_badly_scaled: 12 000 (quick) / 240 000 (thorough) tiny problems mixing an exponential or power cone with second-order cones, every data block at its own magnitude (A 1e0..1e13, b 1e0..1e21, q 1e-12..1e3, P 1e-2..1e10, two significant digits)",
    "C05": "a fifth of the feasible base problems are loosened; every Solved run must return a point in K x K* (relative margin -1e-6); third recorded mechanism signature: objective scale beyond the equilibration clip",
    "C06": "conjunction strata (linear objective, sparse-expanded cone, both, both with large data, quadratic objective with sparse-expanded cone) judged by the 2 % rate rule",
    "C07": "slice with second-order cones used as plain bounds (tail rows of A and b zero)",
    "C08": "the empty update in each spelling (array, Vec, empty (index,value) pair)",
    "C09": "planted values include -bound, -2 bound, -1e30 (never dropped); a panic on such data is a violation keyed by its site",
    "C11": "third phase in a third of the cases: every value of P and A rewritten in place, short solve, all snapshot oracles again",
    "C12": "a third of the refactor histories run without regularisation and flip diagonal signs (inertia changes); non-upper-triangular inputs also with reversed and rotated column orders",
    "C13": "one pair in eight at an overall scale 1e-30..1e30; workload combined_rhs: the corrector right-hand side assembled by DefaultVariables::combined_step_rhs for a random list of symmetric cones, Mehrotra scale M in {1, 0.6, 0.25, random}, against lambda o lambda + M (W^-T ds o W dz) - sigma mu e built from single-cone operators, and the kappa entry",
    "C14": "points of magnitude 1e-9..1e10; one point in seven exactly on the central path (s = -mu grad f*(z)); a third of the aged cone objects were scaled at the very point under test with another mu; conjugacy tolerance 5e-7 x conditioning x 1/(4 min alpha)",
    "C15": "one point in eight at an overall scale 1e-40..1e40 (directions follow the point's scale)",
    "C17": "an undecomposed result under merge 'none' is a violation unless the pattern, filled by symbolic elimination in the ordering obtained through the public QDLDL API and linked across disconnected parts, is complete",
    "C19": "a third of the round-trip problems hold explicitly stored zeros; exponent vectors of generalised power cones sit at the edge of the constructor's tolerance half of the time; the load-time settings argument must show in the loaded solver's internal dimensions and scalings (compared with a reference construction); the post-acceptance solve probe runs only when the stored settings are intact",
    "C20": "every other case the stream target accepts only 1, 7, 32 or 64 bytes per write; a third of the cases select the buffer again and solve a second time (one solve's output, or nothing when verbose was switched off)",
}
for _k, _v in ADDED2.items():
    PLAN[_k]["rule"] = PLAN[_k]["rule"] + "; " + _v

# ---- round 8
ADDED3 = {
    "C08": "histories contain composite update_data calls whose last term is refused (P, q, A applied in order, b of the wrong length): the error must come back and data, KKT copy and engine copy must agree with the model; objective agreement with the fresh solver uses a slack derived from the documented residual tolerances",
    "C14": "unit_initialization is called on garbage-filled buffers half of the time",
    "C17": "half of the patterns sit behind one to three other cones (dense rows), the tree must carry the PSD cone's index",
    "C19": "hugely negative finite right-hand sides (-1e21, -4e25, -1e300) in a slice of the round-trip problems",
    "C20": "infinite right-hand sides also outside nonnegative cones (capped, not removed: the presolve line must not count them)",
}
for _k, _v in ADDED3.items():
    PLAN[_k]["rule"] = PLAN[_k]["rule"] + "; " + _v

# after the ninth round of seeded changes and the sweeps over seeds 46-60
ADDED4 = {
    "C04": "the degenerate family places empty cones of every kind with a dimension argument (Zero(0), NN(0), SOC(0), PSD(0)) first, last, after collapsible and after non-collapsible cones; the shared generator also draws SOC/PSD dimensions 0 and 1",
    "C05": "objectives of two solved runs must agree to within the gap the documentation ALLOWS the run (its own tolerances, full or reduced, mapped to the original objective units) plus what the residuals can move them, not only within the gap it happens to have",
    "C07": "workload to_the_roundoff_floor: small symmetric-cone problems (half of the second-order cones axis-only) whose optimality tolerances are zero run until max_iter or a numerical stop, so complementary components fall to 1e-17 and below; nonnegative components are judged exactly at every magnitude, other blocks while their size is within [1e-75, 1e75], with a rounding allowance relative to the larger of the current and the previous block size",
    "C08": "a Solved/Infeasible pair against the fresh solver is accepted only if each result passes the documented test of its own status (reduced tolerances for Almost... statuses) on the model data",
    "C19": "settings are compared through serde AND through the derived Debug view (a field skipped by the serialiser is invisible to the former); a verdict pair original-vs-loaded is counted instead of judged only if equilibration is on, the file differs from the user data in some bit and both results pass their own documented tests on the user's problem",
}
for _k, _v in ADDED4.items():
    PLAN[_k]["rule"] = PLAN[_k]["rule"] + "; " + _v

# after the tenth round of seeded changes
ADDED5 = {
    "C04": "empty and singleton cones are combined with infinite right-hand sides in nonnegative rows (the presolver then rewrites that very cone list)",
    "C05": "a slice of base problems carries vacuous rows (b >= 1e20) in a nonnegative cone appended to the list, with presolve kept on in every variant; the concurrency workload excludes such problems because a sibling thread flips the bound there on purpose",
    "C07": "pure feasibility problems (P = 0, q = 0) in the roundoff-floor workload; a block of a proper cone that is exactly zero is not interior",
    "C08": "histories contain poison-and-repair steps (a NaN or +-Inf through an accepted partial update of q, b, A or P, usually a solve, then the model's value again); the first iterate of every live solve must report finite residuals, costs and mu wherever the fresh solver's first iterate does",
    "C09": "a third of the solvers of the bound histories are built and solved on a spawned thread; get_infinity() there must return the value set on the main thread",
    "C10": "a slice of scaling intervals that exclude 1 (all-zero rows/columns and an objective left unscaled because P or q is zero are exempt there)",
    "C13": "a third of the argument vectors are structured (zero tail, basis vector, identity element, random zero pattern) and an eighth of the second-order scaling points lie on the cone axis",
    "C15": "margins and symmetric initialisation are also evaluated on vectors in which whole blocks are exactly zero",
    "C16": "every matrix-vector product with beta = 0 is repeated on an output buffer filled with NaN and infinities",
    "C18": "15 % of the PSD cones have order 11-15 (dense block of nine or more vertices with a tail of small overlapping cliques)",
    "C20": "a third of the buffer solvers have been solved before (1-2 iterations, silently); an infeasible end must report NaN objectives",
}
for _k, _v in ADDED5.items():
    PLAN[_k]["rule"] = PLAN[_k]["rule"] + "; " + _v

# after the eleventh round of seeded changes
ADDED6 = {
    "C03": "a quarter of the reports come from a solver object that was solved once before with a budget of 1-2 iterations",
    "C05": "one feasible base problem in ten is a loose symmetric-cone problem with equality rows",
    "C06": "additional strata symmetric_only and symmetric_only+equalities (2 % rule)",
    "C13": "half of the scaling updates pass ScalingStrategy::Dual and an arbitrary mu: the scaling of a symmetric cone may depend on (s,z) only",
    "C14": "workload near_boundary_scaling: 200000 (thorough 2000000) Exp/Pow pairs far from complementarity with the dual point down to a relative distance of 1e-13 from the boundary; an accepted primal-dual scaling must be symmetric, finite and have a positive diagonal",
    "C19": "a settings argument is also combined with a file whose stored settings this build cannot use (must load, with the argument's settings) and an unusable argument with a sound file (must be an error, not a panic)",
}
for _k, _v in ADDED6.items():
    PLAN[_k]["rule"] = PLAN[_k]["rule"] + "; " + _v

# after the twelfth round of seeded changes
ADDED7 = {
    "C01": "a slice with one hugely negative right-hand side (-1e21...-1e30) in a nonnegative row; such a run is judged only if it ends Solved, and without the planted sandwich",
    "C02": "a fifth of the dual-infeasible family carries equality rows orthogonal to the unbounded ray, symmetric cones only and loose inequalities",
    "C07": "the point every run ends at must be bit-identical to the last or - after the insufficient-progress roll-back - the last-but-one iterate of that run, homogenisation scalars included",
    "C11": "the Triu and Tril assemblies of one problem must put the t-th entry of every index map at mirrored coordinates",
    "C14": "after a third-order correction the stored gradient and Hessian are bit for bit what they were, and a second correction at the same scaling point (other directions) is compared with the oracle as well",
    "C15": "unit initialisation through the composite cone (every cone kind) on garbage-filled buffers must equal the result on zeroed buffers, be strictly interior and zero the zero-cone blocks",
}
for _k, _v in ADDED7.items():
    PLAN[_k]["rule"] = PLAN[_k]["rule"] + "; " + _v

# after the thirteenth round of seeded changes
ADDED8 = {
    "C07": "the point handed back by every prefix run (no row removed by the presolver) must lie in the user's cones K x K* to 1e-9 relative: un-scaling a strictly interior internal iterate cannot leave them",
    "C13": "the slack-step offset W'(lambda \\ ds) obtained through the cone list equals, block by block, the offsets of fresh single-cone objects that see only their own slices",
    "C14": "a fifth of the generalised power cones with a w block of two or more entries get a primal point whose w block mixes exact zeros with non-zeros",
    "C15": "one case in twelve asks for alpha_max below min_terminate_step_length: the requested maximum itself is always tried, so a zero step is legitimate only if it fails too",
    "C19": "one settings argument in six carries time_limit = f64::MAX (the value an infinite limit is stored as): an argument is used as given",
}
for _k, _v in ADDED8.items():
    PLAN[_k]["rule"] = PLAN[_k]["rule"] + "; " + _v

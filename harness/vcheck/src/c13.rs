//! C13 — symmetric-cone scaling operators satisfy the Nesterov–Todd identities.
//!
//! Cone objects are driven directly (hook H1) at chosen interior (s,z).  Every identity is
//! judged on the harness side; the error is measured relative to a condition-aware scale.
use clarabel::verif::{
    Cone, JordanAlgebra, MatrixShape, NonnegativeCone, ScalingStrategy, SecondOrderCone, SymmetricCone,
};
#[cfg(feature = "sdp")]
use clarabel::verif::PSDTriangleCone;
use serde_json::json;
use vkit::cones::{self as vc, ConeT};
use vkit::{Ctx, Rng};

#[derive(Clone, Copy, PartialEq, Debug)]
pub enum Kind {
    NN,
    SOC,
    PSD,
}

/// Jordan product by definition
pub fn jordan(kind: Kind, n: usize, x: &[f64], y: &[f64]) -> Vec<f64> {
    match kind {
        Kind::NN => x.iter().zip(y).map(|(a, b)| a * b).collect(),
        Kind::SOC => {
            let mut o = vec![0.0; x.len()];
            o[0] = vkit::dd::dot(x, y).f();
            for i in 1..x.len() {
                o[i] = x[0] * y[i] + y[0] * x[i];
            }
            o
        }
        Kind::PSD => {
            let xm = vc::svec_to_mat(n, x);
            let ym = vc::svec_to_mat(n, y);
            let mut p = vec![0.0; n * n];
            for i in 0..n {
                for j in 0..n {
                    let mut s = vkit::DD::ZERO;
                    for k in 0..n {
                        s = s + vkit::DD::new(xm[i * n + k]) * vkit::DD::new(ym[k * n + j]) + vkit::DD::new(ym[i * n + k]) * vkit::DD::new(xm[k * n + j]);
                    }
                    p[i * n + j] = 0.5 * s.f();
                }
            }
            vc::mat_to_svec(n, &p)
        }
    }
}

fn identity_elem(kind: Kind, n: usize, len: usize) -> Vec<f64> {
    match kind {
        Kind::NN => vec![1.0; len],
        Kind::SOC => {
            let mut e = vec![0.0; len];
            e[0] = 1.0;
            e
        }
        Kind::PSD => {
            let mut m = vec![0.0; n * n];
            for i in 0..n {
                m[i * n + i] = 1.0;
            }
            vc::mat_to_svec(n, &m)
        }
    }
}

fn ninf(v: &[f64]) -> f64 {
    v.iter().fold(0.0f64, |m, x| m.max(x.abs()))
}
fn err(a: &[f64], b: &[f64]) -> f64 {
    a.iter().zip(b).fold(0.0f64, |m, (x, y)| m.max((x - y).abs()))
}

pub struct Pt {
    pub kind: Kind,
    pub n: usize, // matrix order for PSD, dimension otherwise
    pub len: usize,
    pub s: Vec<f64>,
    pub z: Vec<f64>,
    /// relative margins of s and z (distance to the boundary / scale)
    pub ms: f64,
    pub mz: f64,
}

pub fn cone_t(kind: Kind, n: usize) -> ConeT {
    match kind {
        Kind::NN => ConeT::NonnegativeConeT(n),
        Kind::SOC => ConeT::SecondOrderConeT(n),
        #[cfg(feature = "sdp")]
        Kind::PSD => ConeT::PSDTriangleConeT(n),
        #[cfg(not(feature = "sdp"))]
        Kind::PSD => unreachable!(),
    }
}

/// interior pair with independent magnitudes and controlled distance to the boundary
pub fn sample_point(rng: &mut Rng, kind: Kind, n: usize) -> Pt {
    let ct = cone_t(kind, n);
    let depth_s = *rng.choose(&[1.0, 0.3, 1e-2, 1e-4, 1e-6, 1e-8]);
    let depth_z = *rng.choose(&[1.0, 0.3, 1e-2, 1e-4, 1e-6, 1e-8]);
    // one pair in eight lives at an extreme overall scale (the cones are scale invariant; absolute thresholds are not)
    let wide = rng.bool(0.125);
    let mag_s = if wide { rng.logpos(-30.0, 30.0) } else { rng.logpos(-6.0, 6.0) };
    let mag_z = if wide { rng.logpos(-30.0, 30.0) } else { rng.logpos(-6.0, 6.0) };
    let mut s = vc::sample_interior(&ct, rng, false, 1.0, depth_s);
    let mut z = vc::sample_interior(&ct, rng, true, 1.0, depth_z);
    if kind == Kind::NN {
        // push individual entries towards the boundary
        for v in s.iter_mut().chain(z.iter_mut()) {
            if rng.bool(0.2) {
                *v *= *rng.choose(&[1e-2, 1e-5, 1e-8]);
            }
        }
    }
    for v in s.iter_mut() {
        *v *= mag_s;
    }
    for v in z.iter_mut() {
        *v *= mag_z;
    }
    // a slice with one point (or both) ON the cone's axis, i.e. a multiple of the identity element with an exactly
    // zero tail - what unit initialisation and any problem with axis-only data produce
    if kind == Kind::SOC && rng.bool(0.12) {
        let which = rng.usize(0, 2);
        if which != 1 {
            for v in z.iter_mut().skip(1) {
                *v = 0.0;
            }
        }
        if which != 0 {
            for v in s.iter_mut().skip(1) {
                *v = 0.0;
            }
        }
    }
    let (m1, s1) = vc::margin(&ct, &s, false);
    let (m2, s2) = vc::margin(&ct, &z, true);
    Pt { kind, n, len: s.len(), s, z, ms: m1 / s1, mz: m2 / s2 }
}

struct J<'a> {
    ctx: &'a mut Ctx,
    wl: &'a str,
    case: u64,
    pt_json: serde_json::Value,
    cond: f64,
    kindname: &'static str,
}
impl J<'_> {
    /// relative error `e` (already divided by the natural scale) against tolerance
    fn judge(&mut self, oracle: &str, e: f64, extra: serde_json::Value) {
        self.ctx.eval(1);
        let tol = 1e-12 * self.cond;
        self.ctx.observe_max(&format!("{}:{}:err/tol", self.kindname, oracle), e / tol);
        if !(e <= tol) {
            let o = format!("{}:{}", self.kindname, oracle);
            self.ctx.violation(&o, &o, self.wl, self.case, json!({"point": self.pt_json, "relative_error": e, "tolerance": tol, "extra": extra}));
        }
    }
}

fn check_cone<C>(ctx: &mut Ctx, wl: &str, case: u64, rng: &mut Rng, cone: &mut C, pt: &Pt, sparse_uvd: Option<(Vec<f64>, Vec<f64>, f64, f64)>)
where
    C: Cone<f64> + SymmetricCone<f64> + JordanAlgebra<f64>,
{
    let len = pt.len;
    let kindname = match pt.kind {
        Kind::NN => "NN",
        Kind::SOC => "SOC",
        Kind::PSD => "PSD",
    };
    // conditioning of the scaling point: the operators involve 1/sqrt(margins)
    let cond = (1.0 / (pt.ms.max(1e-300))).max(1.0) * (1.0 / (pt.mz.max(1e-300))).max(1.0);
    let cond = cond.min(1e12);
    let pj = json!({"kind": kindname, "n": pt.n, "s": pt.s, "z": pt.z, "rel_margin_s": pt.ms, "rel_margin_z": pt.mz});
    let mut j = J { ctx, wl, case, pt_json: pj, cond, kindname };
    let (s, z) = (&pt.s, &pt.z);
    let (ns, nz) = (ninf(s), ninf(z));
    let rv = |rng: &mut Rng| -> Vec<f64> {
        match pt.kind {
            Kind::PSD => {
                let n = pt.n;
                let mut m = vec![0.0; n * n];
                for i in 0..n {
                    for jx in 0..=i {
                        let v = rng.normal();
                        m[i * n + jx] = v;
                        m[jx * n + i] = v;
                    }
                }
                vc::mat_to_svec(n, &m)
            }
            _ => {
                let mut v: Vec<f64> = (0..len).map(|_| rng.normal()).collect();
                // structured arguments: exact zeros make inner products with the scaling point vanish exactly
                // (zero tail, a single basis vector, the identity element, a random zero pattern)
                if rng.bool(0.3) {
                    match rng.usize(0, 3) {
                        0 => v.iter_mut().skip(1).for_each(|t| *t = 0.0),
                        1 => {
                            let k = rng.usize(0, len - 1);
                            let a = v[k];
                            v.iter_mut().for_each(|t| *t = 0.0);
                            v[k] = if a == 0.0 { 1.0 } else { a };
                        }
                        2 => {
                            v = identity_elem(pt.kind, pt.n, len);
                        }
                        _ => v.iter_mut().for_each(|t| {
                            if rng.bool(0.5) {
                                *t = 0.0
                            }
                        }),
                    }
                    if v.iter().all(|t| *t == 0.0) {
                        v[0] = 1.0;
                    }
                }
                v
            }
        }
    };

    // λ = W z = W^{-T} s
    let mut wz = vec![0.0; len];
    cone.mul_W(MatrixShape::N, &mut wz, z, 1.0, 0.0);
    let mut wits = vec![0.0; len];
    cone.mul_Winv(MatrixShape::T, &mut wits, s, 1.0, 0.0);
    let lam_scale = (ns * nz).sqrt();
    j.judge("Wz_eq_WinvT_s", err(&wz, &wits) / lam_scale, json!({"Wz": wz, "WinvT_s": wits}));
    let lam = wz.clone();

    // (W'W) z = s
    let mut hz = vec![0.0; len];
    let mut work = vec![0.0; len];
    cone.mul_Hs(&mut hz, z, &mut work);
    j.judge("Hs_z_eq_s", err(&hz, s) / ns, json!({"Hs_z": hz}));

    // W, W^{-1} mutually inverse in both shapes; alpha/beta semantics
    for shape in [MatrixShape::N, MatrixShape::T] {
        let x = rv(rng);
        let mut y = vec![0.0; len];
        cone.mul_W(shape, &mut y, &x, 1.0, 0.0);
        let mut back = vec![0.0; len];
        cone.mul_Winv(shape, &mut back, &y, 1.0, 0.0);
        j.judge("Winv_W_identity", err(&back, &x) / ninf(&x), json!({"shape": format!("{shape:?}")}));
        // y = a W x + b y0
        let y0 = rv(rng);
        let (a, b) = (rng.range(-2.0, 2.0), rng.range(-2.0, 2.0));
        let mut y2 = y0.clone();
        cone.mul_W(shape, &mut y2, &x, a, b);
        let want: Vec<f64> = (0..len).map(|i| a * y[i] + b * y0[i]).collect();
        j.judge("mul_W_alpha_beta", err(&y2, &want) / (ninf(&want).max(1e-300)), json!({"a": a, "b": b}));
        let mut yi = vec![0.0; len];
        cone.mul_Winv(shape, &mut yi, &x, 1.0, 0.0);
        let mut y3 = y0.clone();
        cone.mul_Winv(shape, &mut y3, &x, a, b);
        let want: Vec<f64> = (0..len).map(|i| a * yi[i] + b * y0[i]).collect();
        j.judge("mul_Winv_alpha_beta", err(&y3, &want) / (ninf(&want).max(1e-300)), json!({"a": a, "b": b}));
    }
    // <Wx,y> = <x,W'y>
    {
        let (x, y) = (rv(rng), rv(rng));
        let mut wx = vec![0.0; len];
        cone.mul_W(MatrixShape::N, &mut wx, &x, 1.0, 0.0);
        let mut wty = vec![0.0; len];
        cone.mul_W(MatrixShape::T, &mut wty, &y, 1.0, 0.0);
        let a = vkit::dd::dot(&wx, &y).f();
        let b = vkit::dd::dot(&x, &wty).f();
        let sc: f64 = wx.iter().zip(&y).map(|(p, q)| (p * q).abs()).sum::<f64>().max(1e-300);
        j.judge("W_transpose_consistent", (a - b).abs() / sc, json!({"<Wx,y>": a, "<x,W'y>": b}));
    }
    // W'W x = mul_Hs x
    {
        let x = rv(rng);
        let mut wx = vec![0.0; len];
        cone.mul_W(MatrixShape::N, &mut wx, &x, 1.0, 0.0);
        let mut wtwx = vec![0.0; len];
        cone.mul_W(MatrixShape::T, &mut wtwx, &wx, 1.0, 0.0);
        let mut hx = vec![0.0; len];
        cone.mul_Hs(&mut hx, &x, &mut work);
        j.judge("Hs_eq_WtW", err(&hx, &wtwx) / ninf(&hx).max(1e-300), json!({}));
    }
    // affine_ds = λ∘λ
    {
        let mut ds = vec![0.0; len];
        cone.affine_ds(&mut ds, s);
        let want = jordan(pt.kind, pt.n, &lam, &lam);
        j.judge("affine_ds", err(&ds, &want) / (ns * nz), json!({"got": ds, "want": want}));
    }
    // circ_op = Jordan product
    {
        let (x, y) = (rv(rng), rv(rng));
        let mut o = vec![0.0; len];
        cone.circ_op(&mut o, &x, &y);
        let want = jordan(pt.kind, pt.n, &x, &y);
        let sc = ninf(&x) * ninf(&y) * (len as f64).sqrt();
        let saved = j.cond;
        j.cond = 1.0;
        j.judge("circ_op", err(&o, &want) / sc, json!({"x": x, "y": y}));
        j.cond = saved;
    }
    // λ∘(λ\v) = v
    {
        let v = rv(rng);
        let mut q = vec![0.0; len];
        cone.λ_inv_circ_op(&mut q, &v);
        let back = jordan(pt.kind, pt.n, &lam, &q);
        j.judge("lambda_inv_circ", err(&back, &v) / ninf(&v), json!({}));
    }
    // y∘(y\z)=z  (NN, SOC)
    if pt.kind != Kind::PSD {
        let v = rv(rng);
        let mut q = vec![0.0; len];
        cone.inv_circ_op(&mut q, s, &v);
        let back = jordan(pt.kind, pt.n, s, &q);
        let saved = j.cond;
        j.cond = (1.0 / pt.ms.max(1e-300)).clamp(1.0, 1e12);
        j.judge("inv_circ_op", err(&back, &v) / ninf(&v), json!({}));
        j.cond = saved;
    }
    // combined_ds_shift = W^{-1}Δs ∘ WΔz − σμ e
    {
        let (dz, ds) = (rv(rng), rv(rng));
        let dz: Vec<f64> = dz.iter().map(|v| v * nz).collect();
        let ds: Vec<f64> = ds.iter().map(|v| v * ns).collect();
        let smu = rng.range(0.0, 1.0) * lam_scale * lam_scale;
        let mut wdz = vec![0.0; len];
        cone.mul_W(MatrixShape::N, &mut wdz, &dz, 1.0, 0.0);
        let mut wids = vec![0.0; len];
        cone.mul_Winv(MatrixShape::T, &mut wids, &ds, 1.0, 0.0);
        let mut want = jordan(pt.kind, pt.n, &wids, &wdz);
        let e = identity_elem(pt.kind, pt.n, len);
        for i in 0..len {
            want[i] -= smu * e[i];
        }
        let mut shift = vec![0.0; len];
        let (mut dz2, mut ds2) = (dz.clone(), ds.clone());
        cone.combined_ds_shift(&mut shift, &mut dz2, &mut ds2, smu);
        let sc = (ninf(&wids) * ninf(&wdz) * (len as f64).sqrt()).max(smu).max(1e-300);
        j.judge("combined_ds_shift", err(&shift, &want) / sc, json!({"sigma_mu": smu}));
    }
    // λ ∘ W^{-T}( Δs_from_Δz_offset(ds) ) = ds
    {
        let ds: Vec<f64> = rv(rng).iter().map(|v| v * lam_scale * lam_scale).collect();
        let mut out = vec![0.0; len];
        cone.Δs_from_Δz_offset(&mut out, &ds, &mut work, z);
        let mut t = vec![0.0; len];
        cone.mul_Winv(MatrixShape::T, &mut t, &out, 1.0, 0.0);
        let back = jordan(pt.kind, pt.n, &lam, &t);
        j.judge("ds_from_dz_offset", err(&back, &ds) / ninf(&ds), json!({}));
    }
    // the KKT block equals the operator applied to unit vectors
    {
        let nblk = if cone.Hs_is_diagonal() { len } else { len * (len + 1) / 2 };
        let mut blk = vec![0.0; nblk];
        cone.get_Hs(&mut blk);
        let mut hm = vec![0.0; len * len];
        if cone.Hs_is_diagonal() {
            for i in 0..len {
                hm[i * len + i] = blk[i];
            }
            if let Some((u, v, _d, eta)) = &sparse_uvd {
                for a in 0..len {
                    for b in 0..len {
                        hm[a * len + b] += eta * eta * (u[a] * u[b] - v[a] * v[b]);
                    }
                }
            }
        } else {
            let mut k = 0;
            for c in 0..len {
                for r in 0..=c {
                    hm[r * len + c] = blk[k];
                    hm[c * len + r] = blk[k];
                    k += 1;
                }
            }
        }
        let mut worst = 0.0f64;
        let mut hmax = 0.0f64;
        for c in 0..len {
            let mut e = vec![0.0; len];
            e[c] = 1.0;
            let mut col = vec![0.0; len];
            cone.mul_Hs(&mut col, &e, &mut work);
            for r in 0..len {
                worst = worst.max((col[r] - hm[r * len + c]).abs());
                hmax = hmax.max(col[r].abs());
            }
        }
        j.judge("kkt_block_eq_operator", worst / hmax.max(1e-300), json!({"sparse_expanded": sparse_uvd.is_some()}));
    }
}

fn run_point(ctx: &mut Ctx, wl: &str, case: u64, rng: &mut Rng, kind: Kind, n: usize) {
    // the Nesterov-Todd scaling of a symmetric cone depends on (s, z) only: neither the strategy argument nor mu (which
    // nonsymmetric cones use) may change it.  Half of the points are scaled with ScalingStrategy::Dual and an arbitrary mu
    let strat = if rng.bool(0.5) { ScalingStrategy::Dual } else { ScalingStrategy::PrimalDual };
    let mu_arg = if rng.bool(0.5) { 1.0 } else { rng.logpos(-6.0, 6.0) };
    ctx.bump(if strat == ScalingStrategy::Dual { "points_scaled_with_strategy_Dual" } else { "points_scaled_with_strategy_PrimalDual" });
    let pt = sample_point(rng, kind, n);
    let well = pt.ms > 1e-3 && pt.mz > 1e-3;
    ctx.bump(if well { "points_well_conditioned" } else { "points_near_boundary" });
    match kind {
        Kind::NN => {
            let mut c = NonnegativeCone::<f64>::new(n);
            let ok = c.update_scaling(&pt.s, &pt.z, mu_arg, strat);
            if !ok {
                ctx.violation("NN:update_scaling_failed", "NN:update_scaling_failed", wl, case, json!({"s": pt.s, "z": pt.z}));
                return;
            }
            check_cone(ctx, wl, case, rng, &mut c, &pt, None);
        }
        Kind::SOC => {
            let mut c = SecondOrderCone::<f64>::new(n);
            let ok = c.update_scaling(&pt.s, &pt.z, mu_arg, strat);
            if !ok {
                // legitimate only if a residual underflowed; with margins >= 1e-8 relative it must succeed
                ctx.violation("SOC:update_scaling_failed", "SOC:update_scaling_failed", wl, case, json!({"s": pt.s, "z": pt.z}));
                return;
            }
            let sp = c.sparse_data.as_ref().map(|d| (d.u.clone(), d.v.clone(), d.d, c.η));
            ctx.bump(if sp.is_some() { "soc_sparse_form" } else { "soc_dense_form" });
            check_cone(ctx, wl, case, rng, &mut c, &pt, sp);
            // a scaling update followed by a reset to the identity must leave a consistent operator too
            if rng.bool(0.3) {
                c.set_identity_scaling();
                let e = {
                    let mut e = vec![0.0; n];
                    e[0] = 1.0;
                    e
                };
                let ptid = Pt { kind, n, len: n, s: e.clone(), z: e, ms: 1.0, mz: 1.0 };
                let sp = c.sparse_data.as_ref().map(|d| (d.u.clone(), d.v.clone(), d.d, c.η));
                // identities that do not involve λ (identity scaling does not define λ): reuse the block/operator ones
                check_identity_state(ctx, wl, case, &mut c, &ptid, sp);
            }
        }
        Kind::PSD => {
            #[cfg(feature = "sdp")]
            {
                let mut c = PSDTriangleCone::<f64>::new(n);
                let ok = c.update_scaling(&pt.s, &pt.z, mu_arg, strat);
                if !ok {
                    if pt.ms > 1e-6 && pt.mz > 1e-6 {
                        ctx.violation("PSD:update_scaling_failed", "PSD:update_scaling_failed", wl, case, json!({"s": pt.s, "z": pt.z}));
                    } else {
                        ctx.bump("psd_update_scaling_declined_near_boundary");
                    }
                    return;
                }
                check_cone(ctx, wl, case, rng, &mut c, &pt, None);
            }
        }
    }
}

/// after `set_identity_scaling`: W = I, the KKT block is the identity operator
fn check_identity_state(ctx: &mut Ctx, wl: &str, case: u64, c: &mut SecondOrderCone<f64>, pt: &Pt, sp: Option<(Vec<f64>, Vec<f64>, f64, f64)>) {
    let len = pt.len;
    let mut work = vec![0.0; len];
    let nblk = if c.Hs_is_diagonal() { len } else { len * (len + 1) / 2 };
    let mut blk = vec![0.0; nblk];
    c.get_Hs(&mut blk);
    let mut hm = vec![0.0; len * len];
    if c.Hs_is_diagonal() {
        for i in 0..len {
            hm[i * len + i] = blk[i];
        }
        if let Some((u, v, _d, eta)) = &sp {
            for a in 0..len {
                for b in 0..len {
                    hm[a * len + b] += eta * eta * (u[a] * u[b] - v[a] * v[b]);
                }
            }
        }
    } else {
        let mut k = 0;
        for cc in 0..len {
            for r in 0..=cc {
                hm[r * len + cc] = blk[k];
                hm[cc * len + r] = blk[k];
                k += 1;
            }
        }
    }
    let mut worst = 0.0f64;
    for cc in 0..len {
        let mut e = vec![0.0; len];
        e[cc] = 1.0;
        let mut col = vec![0.0; len];
        c.mul_Hs(&mut col, &e, &mut work);
        for r in 0..len {
            let want = if r == cc { 1.0 } else { 0.0 };
            worst = worst.max((col[r] - want).abs()).max((hm[r * len + cc] - want).abs());
        }
    }
    ctx.eval(1);
    ctx.bump("identity_scaling_after_update_checked");
    if worst > 1e-12 {
        ctx.violation("SOC:identity_scaling_after_update", "SOC:identity_scaling_after_update", wl, case, json!({"dim": len, "worst_deviation_from_identity": worst, "sparse_form": sp.is_some()}));
    }
}

pub fn run(ctx: &mut Ctx) {
    let wl = "points";
    let total = if ctx.flavour == "miri" { ctx.count(60, 300) } else { ctx.count(30000, 600000) };
    for case in ctx.cases(wl, total) {
        if ctx.out_of_budget() {
            continue;
        }
        if case % 512 == 0 || ctx.flavour == "miri" {
            ctx.begin(wl, case);
        }
        let mut rng = Rng::for_case(ctx.seed, "C13/points", case);
        let which = rng.usize(0, 9);
        let small = ctx.flavour == "miri";
        let (kind, n) = match which {
            0..=2 => (Kind::NN, rng.usize(1, if small { 4 } else { 30 })),
            3..=6 => (Kind::SOC, *rng.choose(if small { &[2usize, 3, 4, 5, 6][..] } else { &[2usize, 3, 4, 5, 6, 7, 9, 16, 40][..] })),
            _ => {
                if cfg!(feature = "sdp") {
                    (Kind::PSD, rng.usize(1, if small { 3 } else { 8 }))
                } else {
                    (Kind::SOC, 5)
                }
            }
        };
        ctx.bump(&format!("kind_{kind:?}"));
        ctx.nontrivial_n(1);
        let r = vkit::report::catch(std::panic::AssertUnwindSafe(|| run_point(ctx, wl, case, &mut rng, kind, n)));
        if let Err(msg) = r {
            ctx.violation("panic", "panic", wl, case, json!({"kind": format!("{kind:?}"), "n": n, "panic": msg}));
        }
        if case < 2 {
            ctx.sample(json!({"workload": wl, "kind": format!("{kind:?}"), "n": n}));
        }
    }
    w_combined_rhs(ctx);
}

/// The corrector right-hand side as the solver assembles it for a whole cone list
/// (`DefaultVariables::combined_step_rhs`, public API) against its definition
///   ds = lambda o lambda + M (W^-T ds_aff o W dz_aff) - sigma mu e ,  kappa = tau kappa + M dtau dkappa - sigma mu ,
/// built block by block from fresh single-cone objects (whose operators the `points` workload judges).
/// M is the Mehrotra-correction scale: 1 in every iteration but the first, where it is alpha_aff < 1.
fn w_combined_rhs(ctx: &mut Ctx) {
    use clarabel::solver::traits::Variables;
    use clarabel::solver::{DefaultResiduals, DefaultVariables};
    use clarabel::verif::{CompositeCone, PrimalOrDualCone};
    let wl = "combined_rhs";
    let total = if ctx.flavour == "miri" { ctx.count(6, 30) } else { ctx.count(1500, 30000) };
    for case in ctx.cases(wl, total) {
        if ctx.out_of_budget() {
            continue;
        }
        if case % 64 == 0 || ctx.flavour == "miri" {
            ctx.begin(wl, case);
        }
        let mut rng = Rng::for_case(ctx.seed, "C13/combined_rhs", case);
        let small = ctx.flavour == "miri";
        let mut types: Vec<ConeT> = vec![];
        for _ in 0..rng.usize(1, 4) {
            types.push(match rng.usize(0, if cfg!(feature = "sdp") { 3 } else { 2 }) {
                0 => ConeT::NonnegativeConeT(rng.usize(1, 4)),
                1 => ConeT::SecondOrderConeT(rng.usize(2, 4)),
                2 => ConeT::SecondOrderConeT(rng.usize(5, if small { 6 } else { 12 })),
                _ => {
                    #[cfg(feature = "sdp")]
                    {
                        ConeT::PSDTriangleConeT(rng.usize(1, if small { 2 } else { 4 }))
                    }
                    #[cfg(not(feature = "sdp"))]
                    {
                        ConeT::NonnegativeConeT(2)
                    }
                }
            });
        }
        let nc = vc::total_dim(&types);
        let nx = 2;
        let (mut s, mut z) = (vec![], vec![]);
        for t in &types {
            s.extend(vc::sample_interior(t, &mut rng, false, 1.0, 0.3));
            z.extend(vc::sample_interior(t, &mut rng, true, 1.0, 0.3));
        }
        let dz: Vec<f64> = (0..nc).map(|_| rng.range(-1.0, 1.0)).collect();
        let ds: Vec<f64> = (0..nc).map(|_| rng.range(-1.0, 1.0)).collect();
        let (sigma, mu) = (rng.range(0.0, 1.0), rng.logpos(-3.0, 1.0));
        let mrand = rng.range(0.05, 1.0);
        let m = *rng.choose(&[1.0, 1.0, 0.6, 0.25, mrand]);
        let (tau, kappa, dtau, dkappa) = (rng.range(0.5, 2.0), rng.range(0.5, 2.0), rng.range(-1.0, 1.0), rng.range(-1.0, 1.0));
        ctx.nontrivial_n(1);
        let out = vkit::report::catch(std::panic::AssertUnwindSafe(|| {
            // reference, block by block
            fn one<C: Cone<f64> + SymmetricCone<f64>>(cone: &mut C, s: &[f64], z: &[f64], dz: &[f64], ds: &[f64], m: f64, sm: f64) -> Option<Vec<f64>> {
                let n = s.len();
                if !cone.update_scaling(s, z, 1.0, ScalingStrategy::PrimalDual) {
                    return None;
                }
                let mut lam = vec![0.0; n];
                cone.mul_W(MatrixShape::N, &mut lam, z, 1.0, 0.0);
                let mut ll = vec![0.0; n];
                cone.circ_op(&mut ll, &lam, &lam);
                let (mut wdz, mut wids, mut corr, mut e) = (vec![0.0; n], vec![0.0; n], vec![0.0; n], vec![0.0; n]);
                cone.mul_W(MatrixShape::N, &mut wdz, dz, 1.0, 0.0);
                cone.mul_Winv(MatrixShape::T, &mut wids, ds, 1.0, 0.0);
                cone.circ_op(&mut corr, &wids, &wdz);
                cone.scaled_unit_shift(&mut e, -sm, PrimalOrDualCone::PrimalCone);
                Some((0..n).map(|i| ll[i] + m * corr[i] + e[i]).collect())
            }
            // slack-step offset W'(lambda \ ds) of ONE cone, on a fresh object that sees nothing but its own slices
            fn off<C: Cone<f64> + SymmetricCone<f64>>(cone: &mut C, s: &[f64], z: &[f64], ds: &[f64]) -> Option<Vec<f64>> {
                let n = s.len();
                if !cone.update_scaling(s, z, 1.0, ScalingStrategy::PrimalDual) {
                    return None;
                }
                let (mut out, mut work) = (vec![0.0; n], vec![0.0; n]);
                cone.Δs_from_Δz_offset(&mut out, ds, &mut work, z);
                Some(out)
            }
            let mut expect_off: Vec<f64> = vec![];
            for (t, r) in types.iter().zip(vc::cone_ranges(&types)) {
                let part = match t {
                    ConeT::NonnegativeConeT(d) => off(&mut NonnegativeCone::<f64>::new(*d), &s[r.clone()], &z[r.clone()], &ds[r.clone()]),
                    ConeT::SecondOrderConeT(d) => off(&mut SecondOrderCone::<f64>::new(*d), &s[r.clone()], &z[r.clone()], &ds[r.clone()]),
                    #[cfg(feature = "sdp")]
                    ConeT::PSDTriangleConeT(d) => off(&mut PSDTriangleCone::<f64>::new(*d), &s[r.clone()], &z[r.clone()], &ds[r.clone()]),
                    _ => None,
                };
                expect_off.extend(part?);
            }
            let mut expect: Vec<f64> = vec![];
            for (t, r) in types.iter().zip(vc::cone_ranges(&types)) {
                let part = match t {
                    ConeT::NonnegativeConeT(d) => one(&mut NonnegativeCone::<f64>::new(*d), &s[r.clone()], &z[r.clone()], &dz[r.clone()], &ds[r.clone()], m, sigma * mu),
                    ConeT::SecondOrderConeT(d) => one(&mut SecondOrderCone::<f64>::new(*d), &s[r.clone()], &z[r.clone()], &dz[r.clone()], &ds[r.clone()], m, sigma * mu),
                    #[cfg(feature = "sdp")]
                    ConeT::PSDTriangleConeT(d) => one(&mut PSDTriangleCone::<f64>::new(*d), &s[r.clone()], &z[r.clone()], &dz[r.clone()], &ds[r.clone()], m, sigma * mu),
                    _ => None,
                };
                expect.extend(part?);
            }
            // what the solver assembles
            let mut cones = CompositeCone::<f64>::new(&types);
            let mut variables = DefaultVariables::<f64>::new(nx, nc);
            variables.s.copy_from_slice(&s);
            variables.z.copy_from_slice(&z);
            variables.τ = tau;
            variables.κ = kappa;
            if !variables.scale_cones(&mut cones, mu, ScalingStrategy::PrimalDual) {
                return None;
            }
            let residuals = DefaultResiduals::<f64>::new(nx, nc);
            let mut step = DefaultVariables::<f64>::new(nx, nc);
            step.z.copy_from_slice(&dz);
            step.s.copy_from_slice(&ds);
            step.τ = dtau;
            step.κ = dkappa;
            let mut rhs = DefaultVariables::<f64>::new(nx, nc);
            rhs.affine_step_rhs(&residuals, &variables, &cones);
            rhs.combined_step_rhs(&residuals, &variables, &mut cones, &mut step, sigma, mu, m);
            // the same offset through the cone list (what the KKT right-hand side is built from)
            let (mut got_off, mut work_all) = (vec![0.0; nc], vec![0.0; nc]);
            cones.Δs_from_Δz_offset(&mut got_off, &ds, &mut work_all, &z);
            Some((expect, rhs.s.clone(), rhs.κ, expect_off, got_off))
        }));
        ctx.eval(1);
        let detail = |extra: serde_json::Value| json!({"cones": vkit::problem::cones_json(&types), "s": s, "z": z, "dz": dz, "ds": ds, "sigma": sigma, "mu": mu, "M": m, "check": extra});
        match out {
            Err(msg) => ctx.violation("panic", "panic:combined_rhs", wl, case, detail(json!({"panic": msg}))),
            Ok(None) => ctx.bump("combined_rhs_scaling_refused"),
            Ok(Some((expect, got, got_kappa, expect_off, got_off))) => {
                let sc_off = expect_off.iter().fold(1e-300f64, |a, v| a.max(v.abs()));
                let worst_off = expect_off.iter().zip(&got_off).fold(0.0f64, |a, (e, g)| a.max((e - g).abs())) / sc_off;
                ctx.observe_max("cone_list_slack_offset_rel_err", worst_off);
                if !(worst_off <= 1e-12) {
                    ctx.violation("cone_list_slack_offset_ne_blockwise", "cone_list_slack_offset_ne_blockwise", wl, case, detail(json!({"relative_error": worst_off, "got": got_off, "want": expect_off})));
                }
                ctx.bump(if m == 1.0 { "combined_rhs_full_correction" } else { "combined_rhs_reduced_correction" });
                let scale = expect.iter().fold(1.0f64, |a, v| a.max(v.abs()));
                let worst = expect.iter().zip(&got).fold(0.0f64, |a, (e, g)| a.max((e - g).abs())) / scale;
                ctx.observe_max("combined_rhs_rel_err", worst);
                if !(worst <= 1e-9) {
                    ctx.violation("combined_rhs_ds", "combined_rhs_ds", wl, case, detail(json!({"relative_error": worst, "got": got, "want": expect})));
                }
                let want_kappa = tau * kappa + m * dtau * dkappa - sigma * mu;
                if !((got_kappa - want_kappa).abs() <= 1e-12 * (1.0 + want_kappa.abs())) {
                    ctx.violation("combined_rhs_kappa", "combined_rhs_kappa", wl, case, detail(json!({"got": got_kappa, "want": want_kappa})));
                }
            }
        }
    }
}

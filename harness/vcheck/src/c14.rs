//! C14 — nonsymmetric-cone barrier calculus matches the cones' mathematical definitions.
//!
//! The dual barriers are written here from their definitions on the jet scalar and
//! differentiated automatically (vkit::jet); nothing is finite-differenced.
use clarabel::verif::{Cone, ExponentialCone, GenPowerCone, PowerCone, ScalingStrategy};
use serde_json::json;
use vkit::cones::{self as vc, ConeT};
use vkit::jet::{Deriv, Jet3};
use vkit::{Ctx, Rng};

#[derive(Clone, Debug)]
enum K {
    Exp,
    Pow(f64),
    Gen(Vec<f64>, usize),
}

impl K {
    fn cone_t(&self) -> ConeT {
        match self {
            K::Exp => ConeT::ExponentialConeT(),
            K::Pow(a) => ConeT::PowerConeT(*a),
            K::Gen(a, d2) => ConeT::GenPowerConeT(a.clone(), *d2),
        }
    }
    fn name(&self) -> &'static str {
        match self {
            K::Exp => "Exp",
            K::Pow(_) => "Pow",
            K::Gen(_, _) => "GenPow",
        }
    }
    fn dim(&self) -> usize {
        vc::cone_dim(&self.cone_t())
    }
    /// barrier parameter nu
    fn nu(&self) -> f64 {
        match self {
            K::Exp | K::Pow(_) => 3.0,
            K::Gen(a, _) => a.len() as f64 + 1.0,
        }
    }
    /// the dual barrier f*(z) from its definition
    fn dual_barrier(&self, z: &[Jet3]) -> Jet3 {
        match self {
            K::Exp => {
                // -log(z2 - z1 - z1 log(z3/-z1)) - log(-z1) - log(z3)
                let l = (z[2] / (-z[0])).ln();
                -((z[1] - z[0] - z[0] * l).ln()) - (-z[0]).ln() - z[2].ln()
            }
            K::Pow(a) => {
                let al = [*a, 1.0 - *a];
                genpow_dual_barrier(&al, z)
            }
            K::Gen(al, _) => genpow_dual_barrier(al, z),
        }
    }
}

fn genpow_dual_barrier(al: &[f64], z: &[Jet3]) -> Jet3 {
    // -log( prod (z_i/a_i)^{2 a_i} - |w|^2 ) - sum (1-a_i) log z_i
    let d1 = al.len();
    let mut lg = Jet3::constant(0.0);
    for i in 0..d1 {
        lg = lg + Jet3::constant(2.0 * al[i]) * (z[i] / Jet3::constant(al[i])).ln();
    }
    let mut w2 = Jet3::constant(0.0);
    for w in &z[d1..] {
        w2 = w2 + *w * *w;
    }
    let mut b = -((lg.exp() - w2).ln());
    for i in 0..d1 {
        b = b - Jet3::constant(1.0 - al[i]) * z[i].ln();
    }
    b
}

fn ninf(v: &[f64]) -> f64 {
    v.iter().fold(0.0f64, |m, x| m.max(x.abs()))
}

fn unpack3(p: &[f64; 6]) -> [f64; 9] {
    // packed triu by columns: (0,0),(0,1),(1,1),(0,2),(1,2),(2,2)
    [p[0], p[1], p[3], p[1], p[2], p[4], p[3], p[4], p[5]]
}

fn matvec(n: usize, h: &[f64], x: &[f64]) -> Vec<f64> {
    (0..n).map(|i| (0..n).map(|j| h[i * n + j] * x[j]).sum()).collect()
}

/// solve H u = b with the harness's LU (column-major copy)
fn solve(n: usize, h: &[f64], b: &[f64]) -> Option<Vec<f64>> {
    let mut a = vec![0.0; n * n];
    for i in 0..n {
        for j in 0..n {
            a[i + j * n] = h[i * n + j];
        }
    }
    let mut ipiv = vec![0i32; n];
    refla::lu_inplace(n, &mut a, n, &mut ipiv).ok()?;
    let mut x = b.to_vec();
    refla::lu_solve(n, 1, &a, n, &ipiv, &mut x, n);
    Some(x)
}

struct State {
    grad: Vec<f64>,
    h_dual: Vec<f64>, // row-major n*n
    hs: Vec<f64>,     // row-major n*n
}

enum Obj {
    E(ExponentialCone<f64>),
    P(PowerCone<f64>),
    G(GenPowerCone<f64>),
}

impl Obj {
    fn new(k: &K) -> Obj {
        match k {
            K::Exp => Obj::E(ExponentialCone::new()),
            K::Pow(a) => Obj::P(PowerCone::new(*a)),
            K::Gen(a, d2) => Obj::G(GenPowerCone::new(a.clone(), *d2)),
        }
    }
    fn update_scaling(&mut self, s: &[f64], z: &[f64], mu: f64, st: ScalingStrategy) -> bool {
        match self {
            Obj::E(c) => c.update_scaling(s, z, mu, st),
            Obj::P(c) => c.update_scaling(s, z, mu, st),
            Obj::G(c) => c.update_scaling(s, z, mu, st),
        }
    }
    fn state(&self) -> State {
        match self {
            Obj::E(c) => {
                let (h, hs, g, _z) = c.verif_state();
                State { grad: g.to_vec(), h_dual: unpack3(&h).to_vec(), hs: unpack3(&hs).to_vec() }
            }
            Obj::P(c) => {
                let (h, hs, g, _z) = c.verif_state();
                State { grad: g.to_vec(), h_dual: unpack3(&h).to_vec(), hs: unpack3(&hs).to_vec() }
            }
            Obj::G(c) => {
                let (g, _z, d2) = c.verif_state();
                let n = c.dim();
                let d1 = c.dim1();
                let dat = &c.data;
                let mut h = vec![0.0; n * n];
                for i in 0..n {
                    h[i * n + i] = if i < d1 { dat.d1[i] } else { d2 };
                    for j in 0..n {
                        h[i * n + j] += dat.p[i] * dat.p[j];
                        if i < d1 && j < d1 {
                            h[i * n + j] -= dat.q[i] * dat.q[j];
                        }
                        if i >= d1 && j >= d1 {
                            h[i * n + j] -= dat.r[i - d1] * dat.r[j - d1];
                        }
                    }
                }
                let hs: Vec<f64> = h.iter().map(|v| v * dat.μ).collect();
                State { grad: g, h_dual: h, hs }
            }
        }
    }
    fn is_primal_feasible(&self, s: &[f64]) -> bool {
        match self {
            Obj::E(c) => c.verif_is_primal_feasible(s),
            Obj::P(c) => c.verif_is_primal_feasible(s),
            Obj::G(c) => c.verif_is_primal_feasible(s),
        }
    }
    fn is_dual_feasible(&self, z: &[f64]) -> bool {
        match self {
            Obj::E(c) => c.verif_is_dual_feasible(z),
            Obj::P(c) => c.verif_is_dual_feasible(z),
            Obj::G(c) => c.verif_is_dual_feasible(z),
        }
    }
    fn barrier_dual(&mut self, z: &[f64]) -> f64 {
        match self {
            Obj::E(c) => c.verif_barrier_dual(z),
            Obj::P(c) => c.verif_barrier_dual(z),
            Obj::G(c) => c.verif_barrier_dual(z),
        }
    }
    fn barrier_primal(&mut self, s: &[f64]) -> f64 {
        match self {
            Obj::E(c) => c.verif_barrier_primal(s),
            Obj::P(c) => c.verif_barrier_primal(s),
            Obj::G(c) => c.verif_barrier_primal(s),
        }
    }
    fn gradient_primal(&self, s: &[f64]) -> Vec<f64> {
        match self {
            Obj::E(c) => c.verif_gradient_primal(s).to_vec(),
            Obj::P(c) => c.verif_gradient_primal(s).to_vec(),
            Obj::G(c) => {
                let mut g = vec![0.0; s.len()];
                c.verif_gradient_primal(&mut g, s);
                g
            }
        }
    }
    fn higher_correction(&mut self, ds: &[f64], v: &[f64]) -> Option<Vec<f64>> {
        let mut eta = vec![0.0; 3];
        match self {
            Obj::E(c) => c.verif_higher_correction(&mut eta, ds, v),
            Obj::P(c) => c.verif_higher_correction(&mut eta, ds, v),
            Obj::G(_) => return None,
        }
        Some(eta)
    }
    fn unit_initialization(&self, z: &mut [f64], s: &mut [f64]) {
        match self {
            Obj::E(c) => c.unit_initialization(z, s),
            Obj::P(c) => c.unit_initialization(z, s),
            Obj::G(c) => c.unit_initialization(z, s),
        }
    }
    fn mul_hs(&mut self, x: &[f64]) -> Vec<f64> {
        let mut y = vec![0.0; x.len()];
        let mut w = vec![0.0; x.len()];
        match self {
            Obj::E(c) => c.mul_Hs(&mut y, x, &mut w),
            Obj::P(c) => c.mul_Hs(&mut y, x, &mut w),
            Obj::G(c) => c.mul_Hs(&mut y, x, &mut w),
        }
        y
    }
}

fn random_kind(rng: &mut Rng) -> K {
    match rng.usize(0, 5) {
        0 | 1 => K::Exp,
        2 | 3 => {
            // alpha log-spaced towards both ends of (0,1)
            let e = rng.logpos(-3.0, -0.31);
            K::Pow(if rng.bool(0.5) { e } else { 1.0 - e })
        }
        _ => {
            let d1 = rng.usize(2, 6);
            let d2 = rng.usize(1, 5);
            K::Gen(vkit::gen::random_alpha_vec(rng, d1), d2)
        }
    }
}

struct J<'a> {
    ctx: &'a mut Ctx,
    wl: &'a str,
    case: u64,
    k: &'a K,
    pj: serde_json::Value,
}
impl J<'_> {
    fn judge(&mut self, oracle: &str, e: f64, tol: f64, extra: serde_json::Value) {
        self.ctx.eval(1);
        let o = format!("{}:{}", self.k.name(), oracle);
        self.ctx.observe_max(&format!("{o}:err/tol"), e / tol);
        if !(e <= tol) {
            self.ctx.violation(&o, &o, self.wl, self.case, json!({"point": self.pj, "error": e, "tolerance": tol, "extra": extra}));
        }
    }
    fn fail(&mut self, oracle: &str, extra: serde_json::Value) {
        self.ctx.eval(1);
        let o = format!("{}:{}", self.k.name(), oracle);
        self.ctx.violation(&o, &o, self.wl, self.case, json!({"point": self.pj, "extra": extra}));
    }
}

fn point_case(ctx: &mut Ctx, wl: &str, case: u64, rng: &mut Rng) {
    let k = random_kind(rng);
    let ct = k.cone_t();
    let n = k.dim();
    let depth_z = *rng.choose(&[1.0, 0.3, 1e-2, 1e-4, 1e-6]);
    let depth_s = *rng.choose(&[1.0, 0.3, 1e-2, 1e-4, 1e-6]);
    let (magz, mags) = (rng.logpos(-9.0, 10.0), rng.logpos(-9.0, 10.0));
    let z = vc::sample_interior(&ct, rng, true, magz, depth_z);
    let mut s = vc::sample_interior(&ct, rng, false, mags, depth_s);
    // one point in seven lies ON the central path, s = -mu grad f*(z) (to rounding): the primal-dual scaling has no
    // secant information there (delta s, delta z are rounding noise) and must fall back to mu H*(z)
    let central_mu = if rng.bool(0.14) {
        let kk0 = k.clone();
        let f0 = move |v: &[Jet3]| kk0.dual_barrier(v);
        let g0 = Deriv { f: &f0, x: z.clone() }.gradient();
        // mu such that |s| = mu |grad f*(z)| ~ mu/|z| stays inside the magnitude window of this check (1e-9..1e10)
        let mu0 = mags * magz;
        if g0.iter().all(|v| v.is_finite()) {
            s = g0.iter().map(|v| -mu0 * v).collect();
            Some(mu0)
        } else {
            None
        }
    } else {
        None
    };
    // a fifth of the generalised power cones with a w block of two or more entries get a primal point whose w block
    // mixes exact zeros with non-zeros (still interior: |w| only shrinks); the decision comes from a side stream so
    // that the main stream of draws is what it was before this variation existed
    let mut sparse_w = false;
    if let (None, K::Gen(a, d2)) = (&central_mu, &k) {
        let mut r2 = Rng::for_case(ctx.seed, "C14/points/sparse_w", case);
        if *d2 >= 2 && r2.bool(0.2) {
            let keep = r2.usize(0, *d2 - 1);
            for i in 0..*d2 {
                if i != keep && (r2.bool(0.6) || *d2 == 2) {
                    s[a.len() + i] = 0.0;
                    sparse_w = true;
                }
            }
        }
    }
    let (mz, scz) = vc::margin(&ct, &z, true);
    let (ms, scs) = vc::margin(&ct, &s, false);
    let (rz, rs) = (mz / scz, ms / scs);
    if !(rz > 1e-9 && rs > 1e-9) {
        return;
    }
    if sparse_w {
        ctx.bump("genpow_points_with_zeros_inside_a_nonzero_w_block");
    }
    ctx.bump(&format!("kind_{}", k.name()));
    ctx.bump(if rz > 1e-3 && rs > 1e-3 { "points_well_inside" } else { "points_near_boundary" });
    ctx.nontrivial_n(1);
    let mut obj = Obj::new(&k);
    // half of the cone objects are "used": they have already been scaled at some other interior point with
    // some strategy (as in iteration k-1 of a solve), so that anything cached from that call would show
    let (z_test, s_test) = (z.clone(), s.clone());
    let age = |o: &mut Obj, rng: &mut Rng| -> Option<&'static str> {
        if rng.bool(0.5) {
            return None;
        }
        let (m1, m2, m3) = (rng.logpos(-3.0, 3.0), rng.logpos(-3.0, 3.0), rng.logpos(-4.0, 2.0));
        // (a third of the time at the very point under test, only mu differs: nothing may be skipped because "z has
        // not moved")
        let same_point = rng.bool(0.33);
        let z0 = if same_point { z_test.clone() } else { vc::sample_interior(&ct, rng, true, m1, 0.3) };
        let s0 = if same_point { s_test.clone() } else { vc::sample_interior(&ct, rng, false, m2, 0.3) };
        let strat = if rng.bool(0.6) { ScalingStrategy::PrimalDual } else { ScalingStrategy::Dual };
        let _ = o.update_scaling(&s0, &z0, m3, strat);
        Some(if matches!(strat, ScalingStrategy::PrimalDual) { "PrimalDual" } else { "Dual" })
    };
    let aged1 = age(&mut obj, rng);
    if aged1.is_some() {
        ctx.bump("points_on_previously_scaled_cone_objects");
    }
    let pj = json!({"cone": vkit::problem::cones_json(&[ct.clone()]), "z": z, "s": s, "rel_margin_z": rz, "rel_margin_s": rs, "object_previously_scaled_with": aged1});
    let mut j = J { ctx, wl, case, k: &k, pj };
    // conditioning: derivatives of the log-barrier at relative distance r from the boundary lose ~1/r digits
    let cz = (1.0 / rz).clamp(1.0, 1e9);
    let cs = (1.0 / rs).clamp(1.0, 1e9);

    // (1) membership predicates agree with the definitions
    if !obj.is_dual_feasible(&z) {
        j.fail("is_dual_feasible:rejects_interior_point", json!({}));
    }
    if !obj.is_primal_feasible(&s) {
        j.fail("is_primal_feasible:rejects_interior_point", json!({}));
    }
    {
        // a point clearly outside: reflect through the boundary along a random outward push
        let mut zo = z.clone();
        let i = rng.usize(0, n - 1);
        zo[i] = -zo[i].abs() * rng.range(0.5, 2.0) - scz * 1e-3 * if i == 0 && matches!(k, K::Exp) { -3.0 } else { 1.0 };
        let (mo, so) = vc::margin(&ct, &zo, true);
        if mo / so < -1e-9 && obj.is_dual_feasible(&zo) {
            j.fail("is_dual_feasible:accepts_outside_point", json!({"point": zo, "rel_margin": mo / so}));
        }
        let mut so_ = s.clone();
        so_[i] = -so_[i].abs() * rng.range(0.5, 2.0) - scs * 1e-3;
        let (mo2, so2) = vc::margin(&ct, &so_, false);
        if mo2 / so2 < -1e-9 && obj.is_primal_feasible(&so_) {
            j.fail("is_primal_feasible:accepts_outside_point", json!({"point": so_, "rel_margin": mo2 / so2}));
        }
    }

    // oracle derivatives at z
    let kk = k.clone();
    let f = move |v: &[Jet3]| kk.dual_barrier(v);
    let dz = Deriv { f: &f, x: z.clone() };
    let fval = dz.value();
    let g = dz.gradient();
    let h = dz.hessian();

    // (2) barrier_dual value
    let bd = obj.barrier_dual(&z);
    j.judge("barrier_dual", (bd - fval).abs(), 1e-12 * cz * (1.0 + fval.abs()), json!({"got": bd, "want": fval}));

    // (3) stored gradient / Hessian after update_scaling(Dual, mu)
    let mu = central_mu.unwrap_or_else(|| rng.logpos(-8.0, 4.0));
    if central_mu.is_some() {
        j.ctx.bump("points_on_the_central_path");
    }
    if !obj.update_scaling(&s, &z, mu, ScalingStrategy::Dual) {
        j.fail("update_scaling_failed", json!({"strategy": "Dual"}));
        return;
    }
    let st = obj.state();
    // natural scales: g_i ~ 1/z_i ; H_ij ~ 1/(z_i z_j): compare after rescaling by z
    let zs: Vec<f64> = z.iter().map(|v| v.abs().max(scz * 1e-300)).collect();
    let zn: Vec<f64> = (0..n).map(|i| if zs[i] > 0.0 { zs[i] } else { scz }).collect();
    let zref: Vec<f64> = zn.iter().map(|v| v.max(scz * 1e-12)).collect();
    let eg = (0..n).fold(0.0f64, |m, i| m.max(((st.grad[i] - g[i]) * zref[i]).abs()));
    let gs = (0..n).fold(0.0f64, |m, i| m.max((g[i] * zref[i]).abs())).max(1.0);
    j.judge("stored_gradient", eg / gs, 1e-12 * cz, json!({"got": st.grad, "want": g}));
    let mut eh = 0.0f64;
    let mut hsn = 1.0f64;
    for a in 0..n {
        for b in 0..n {
            eh = eh.max(((st.h_dual[a * n + b] - h[a * n + b]) * zref[a] * zref[b]).abs());
            hsn = hsn.max((h[a * n + b] * zref[a] * zref[b]).abs());
        }
    }
    j.judge("stored_hessian", eh / hsn, 1e-11 * cz * cz.sqrt(), json!({"got": st.h_dual, "want": h}));
    // Dual scaling: Hs = mu * H_dual, and the operator mul_Hs agrees
    let mut ehs = 0.0f64;
    for a in 0..n * n {
        ehs = ehs.max((st.hs[a] - mu * st.h_dual[a]).abs() / (mu * st.h_dual[a].abs()).max(1e-300).max(mu * hsn / (scz * scz) * 1e-16));
    }
    j.judge("dual_scaling_Hs_eq_mu_H", ehs, 1e-13, json!({"mu": mu}));
    {
        let x: Vec<f64> = (0..n).map(|i| rng.normal() * zref[i]).collect();
        let y = obj.mul_hs(&x);
        let want = matvec(n, &st.hs, &x);
        let e = (0..n).fold(0.0f64, |m, i| m.max(((y[i] - want[i]) * zref[i]).abs()));
        let sc = (0..n).fold(0.0f64, |m, i| m.max((want[i] * zref[i]).abs())).max(mu * 1e-300);
        j.judge("mul_Hs_eq_Hs_matrix", e / sc.max(1e-300), 1e-12 * cz, json!({}));
    }

    // (4) primal gradient is the conjugate map, primal barrier by conjugacy
    let gp = obj.gradient_primal(&s);
    let mg: Vec<f64> = gp.iter().map(|v| -v).collect();
    let (mm, msc) = vc::margin(&ct, &mg, true);
    if !(mm > 0.0) {
        j.fail("gradient_primal:minus_g_not_in_dual_cone", json!({"g": gp, "rel_margin": mm / msc}));
    } else {
        let kk2 = k.clone();
        let f2 = move |v: &[Jet3]| kk2.dual_barrier(v);
        let dg = Deriv { f: &f2, x: mg.clone() };
        let back = dg.gradient(); // should be -s
        let e = (0..n).fold(0.0f64, |m, i| m.max((back[i] + s[i]).abs())) / scs;
        // the implementation stops its Newton / Wright-omega iterations at ~sqrt(eps) relative step; quadratic convergence => ~eps
        // tolerance from the implementation's documented stopping rule (Newton / Wright-omega iterations stop at a
        // relative step of sqrt(eps) ~ 1.5e-8 without taking it), times the conditioning of the point
        // ... and of the exponents: the inner equation is solved in the last coordinate only, and the map back
        // to the first ones amplifies its error by ~1/min(alpha)
        let amin = match &k {
            K::Exp => 0.25,
            K::Pow(a) => a.min(1.0 - a),
            K::Gen(a, _) => a.iter().fold(1.0f64, |m, v| m.min(*v)),
        };
        let camp = (0.25 / amin).clamp(1.0, 100.0);
        j.judge("conjugacy_grad_dual_at_minus_gprimal", e, 5e-7 * cs * camp, json!({"g_primal": gp, "grad_dual_at_-g": back, "alpha_amplification": camp}));
        let bp = obj.barrier_primal(&s);
        let want = -dg.value() - k.nu();
        j.judge("barrier_primal_by_conjugacy", (bp - want).abs(), 1e-10 * cs * (1.0 + want.abs()), json!({"got": bp, "want": want}));
    }

    // (5) third-order correction = 1/2 * D3 f*(z)[H^{-1} ds, v]
    {
        let ds: Vec<f64> = (0..n).map(|i| rng.normal() / zref[i]).collect(); // scales like a gradient
        let v: Vec<f64> = (0..n).map(|i| rng.normal() * zref[i]).collect();
        if let Some(eta) = obj.higher_correction(&ds, &v) {
            if let Some(u) = solve(n, &h, &ds) {
                let t = dz.third_contract_scaled(&u, &v, &zref);
                let want: Vec<f64> = t.iter().map(|x| 0.5 * x).collect();
                let e = (0..n).fold(0.0f64, |m, i| m.max(((eta[i] - want[i]) * zref[i]).abs()));
                let sc = (0..n).fold(0.0f64, |m, i| m.max((want[i] * zref[i]).abs())).max(1e-300);
                j.judge("higher_correction", e / sc, 1e-9 * cz * cz, json!({"got": eta, "want": want}));
            }
        }
        // evaluating a correction reads the stored derivatives, it does not own them: gradient and Hessian are
        // bit for bit what they were, and a second correction at the same scaling point (other directions) is
        // as good as the first
        let after = obj.state();
        if after.grad.iter().zip(&st.grad).any(|(a, b)| a.to_bits() != b.to_bits()) || after.h_dual.iter().zip(&st.h_dual).any(|(a, b)| a.to_bits() != b.to_bits()) {
            j.fail("stored_derivatives_changed_by_higher_correction", json!({"H_before": st.h_dual, "H_after": after.h_dual}));
        }
        let ds2: Vec<f64> = (0..n).map(|i| rng.normal() / zref[i]).collect();
        let v2: Vec<f64> = (0..n).map(|i| rng.normal() * zref[i]).collect();
        if let Some(eta) = obj.higher_correction(&ds2, &v2) {
            if let Some(u) = solve(n, &h, &ds2) {
                let t = dz.third_contract_scaled(&u, &v2, &zref);
                let want: Vec<f64> = t.iter().map(|x| 0.5 * x).collect();
                let e = (0..n).fold(0.0f64, |m, i| m.max(((eta[i] - want[i]) * zref[i]).abs()));
                let sc = (0..n).fold(0.0f64, |m, i| m.max((want[i] * zref[i]).abs())).max(1e-300);
                j.judge("higher_correction:second_call_at_the_same_point", e / sc, 1e-9 * cz * cz, json!({"got": eta, "want": want}));
            }
        }
    }

    // (6) primal-dual scaling
    let mut obj2 = Obj::new(&k);
    let _aged2 = age(&mut obj2, rng);
    if !obj2.update_scaling(&s, &z, mu, ScalingStrategy::PrimalDual) {
        j.fail("update_scaling_failed", json!({"strategy": "PrimalDual"}));
        return;
    }
    let st2 = obj2.state();
    let hs = &st2.hs;
    // symmetric positive definite
    let mut sym_ok = true;
    for a in 0..n {
        for b in 0..n {
            if hs[a * n + b].to_bits() != hs[b * n + a].to_bits() {
                sym_ok = false;
            }
        }
    }
    if !sym_ok {
        j.fail("Hs_not_symmetric", json!({"Hs": hs}));
    }
    {
        // congruence-scaled eigenvalues (unit-free): D Hs D with D = diag(z)
        let mut m = vec![0.0; n * n];
        for a in 0..n {
            for b in 0..n {
                m[a + b * n] = hs[a * n + b] * zref[a] * zref[b];
            }
        }
        let (w, _) = refla::jacobi_eig_sym(n, &m);
        if !(w[0] > 0.0) {
            j.fail("Hs_not_positive_definite", json!({"scaled_eigenvalues": w}));
        }
    }
    match &k {
        K::Gen(_, _) => {
            // no primal-dual scaling for this cone: Hs = mu*H with the mu passed in
            let mut e = 0.0f64;
            for a in 0..n * n {
                e = e.max((hs[a] - mu * st2.h_dual[a]).abs() / (mu * st2.h_dual[a]).abs().max(1e-300));
            }
            j.judge("genpow_scaling_is_mu_H", e, 1e-12, json!({"mu": mu}));
            j.ctx.bump("scaling_dual_only_(genpow)");
        }
        _ => {
            let hz = matvec(n, hs, &z);
            let e1 = (0..n).fold(0.0f64, |m, i| m.max((hz[i] - s[i]).abs())) / scs;
            // shadow points from the ORACLE gradients: s~ = -grad f*(z), z~ = -grad f(s) with grad f(s) the conjugate
            let zt: Vec<f64> = gp.clone(); // = grad f(s) (checked above against the oracle by conjugacy)
            let st_: Vec<f64> = g.clone(); // = grad f*(z) (oracle)
            let hzt = matvec(n, hs, &zt);
            let sc2 = ninf(&st_).max(1e-300);
            let e2 = (0..n).fold(0.0f64, |m, i| m.max((hzt[i] - st_[i]).abs())) / sc2;
            let secant = e1 <= 1e-8 * cz * cs && e2 <= 1e-6 * cz * cs;
            // fallback: Hs = mu_loc * H_dual with mu_loc = <s,z>/3
            let mul = vkit::dd::dot(&s, &z).f() / 3.0;
            let mut ef = 0.0f64;
            for a in 0..n * n {
                ef = ef.max((hs[a] - mul * st2.h_dual[a]).abs() / (mul * st2.h_dual[a]).abs().max(1e-300));
            }
            let fallback = ef <= 1e-12;
            j.ctx.eval(1);
            j.ctx.bump(if fallback { "scaling_fallback_mu_H" } else if secant { "scaling_primal_dual_secant" } else { "scaling_neither" });
            if !(secant || fallback) {
                j.fail("scaling_neither_secant_nor_fallback", json!({"secant_err_Hs_z_minus_s": e1, "secant_err_shadow": e2, "fallback_err": ef, "Hs": hs}));
            }
        }
    }
}

fn unit_init_case(ctx: &mut Ctx, wl: &str, case: u64, rng: &mut Rng) {
    let k = random_kind(rng);
    let ct = k.cone_t();
    let n = k.dim();
    let obj = Obj::new(&k);
    // the buffers handed over are whatever the previous solve left in them: half of the time garbage
    let dirty = rng.bool(0.5);
    let mut z: Vec<f64> = (0..n).map(|_| if dirty { rng.range(-3.0, 3.0) } else { 0.0 }).collect();
    let mut s: Vec<f64> = (0..n).map(|_| if dirty { rng.range(-3.0, 3.0) } else { 0.0 }).collect();
    obj.unit_initialization(&mut z, &mut s);
    ctx.eval(1);
    ctx.nontrivial_n(1);
    let pj = json!({"cone": vkit::problem::cones_json(&[ct.clone()]), "z": z, "s": s});
    let name = k.name();
    if z.iter().zip(&s).any(|(a, b)| a.to_bits() != b.to_bits()) {
        ctx.violation(&format!("{name}:unit_init_s_ne_z"), &format!("{name}:unit_init_s_ne_z"), wl, case, pj.clone());
        return;
    }
    let (mz, scz) = vc::margin(&ct, &z, true);
    let (ms, scs) = vc::margin(&ct, &s, false);
    if !(mz / scz > 1e-6 && ms / scs > 1e-6) {
        ctx.violation(&format!("{name}:unit_init_not_interior"), &format!("{name}:unit_init_not_interior"), wl, case, json!({"point": pj, "rel_margins": [ms / scs, mz / scz]}));
        return;
    }
    // central point with mu = 1:  s = -grad f*(z)
    let kk = k.clone();
    let f = move |v: &[Jet3]| kk.dual_barrier(v);
    let g = Deriv { f: &f, x: z.clone() }.gradient();
    let e = (0..n).fold(0.0f64, |m, i| m.max((s[i] + g[i]).abs()));
    ctx.observe_max(&format!("{name}:unit_init_centrality_error"), e);
    // the exponential cone's tabulated central point is accurate to ~5e-9; a wrong constant is off by >1e-3
    if !(e <= 1e-7) {
        ctx.violation(&format!("{name}:unit_init_not_central"), &format!("{name}:unit_init_not_central"), wl, case, json!({"point": pj, "minus_grad_dual_at_z": g.iter().map(|v| -v).collect::<Vec<_>>(), "error": e}));
    }
    // and the primal gradient at the central point is consistent: grad f(s) = -z
    let gp = obj.gradient_primal(&s);
    let e2 = (0..n).fold(0.0f64, |m, i| m.max((gp[i] + z[i]).abs()));
    ctx.eval(1);
    if !(e2 <= 1e-7) {
        ctx.violation(&format!("{name}:unit_init_primal_gradient"), &format!("{name}:unit_init_primal_gradient"), wl, case, json!({"point": pj, "gradient_primal": gp, "error": e2}));
    }
}

pub fn run(ctx: &mut Ctx) {
    let wl = "points";
    let total = if ctx.flavour == "miri" { ctx.count(12, 60) } else { ctx.count(20000, 400000) };
    for case in ctx.cases(wl, total) {
        if ctx.out_of_budget() {
            continue;
        }
        if case % 256 == 0 || ctx.flavour == "miri" {
            ctx.begin(wl, case);
        }
        let mut rng = Rng::for_case(ctx.seed, "C14/points", case);
        let r = vkit::report::catch(std::panic::AssertUnwindSafe(|| point_case(ctx, wl, case, &mut rng)));
        if let Err(msg) = r {
            ctx.violation("panic", &format!("panic:{}", msg.rsplit(" @ ").next().unwrap_or("").replace("/repo/", "")), wl, case, json!({"panic": msg}));
        }
    }
    // ---- primal-dual scaling for pairs that are NOT nearly complementary, the dual point anywhere down to a relative
    // distance of 1e-13 from the boundary of K* (dual Hessian conditioned beyond 1e16).  All
    // that is asked there is what survives any amount of rounding in a sum of positive semidefinite terms: a
    // symmetric matrix with a positive diagonal (a necessary condition of "positive definite" that needs no
    // eigenvalue computation) - or a declined scaling.  Cheap, so there are many of them.
    let wl = "near_boundary_scaling";
    let total = if ctx.flavour == "miri" { 0 } else { ctx.count(200000, 2000000) };
    for case in ctx.cases(wl, total) {
        if ctx.out_of_budget() {
            continue;
        }
        if case % 4096 == 0 {
            ctx.begin(wl, case);
        }
        let mut rng = Rng::for_case(ctx.seed, "C14/near_boundary_scaling", case);
        let k = if rng.bool(0.5) { K::Exp } else { K::Pow(*rng.choose(&[0.5, 0.3, 0.8, 0.1, 0.95])) };
        let ct = k.cone_t();
        // (log-uniform depths: the dual point anywhere between the boundary and the middle of the cone, the slack
        // between 1e-6 and 10)
        let depth = 10f64.powf(rng.range(-13.0, 0.0));
        let (magz, mags) = (rng.logpos(-3.0, 3.0), rng.logpos(-3.0, 3.0));
        let z = vc::sample_interior(&ct, &mut rng, true, magz, depth);
        let ds = 10f64.powf(rng.range(-6.0, 1.0));
        let sv = vc::sample_interior(&ct, &mut rng, false, mags, ds);
        let mut obj = Obj::new(&k);
        if !(obj.is_dual_feasible(&z) && obj.is_primal_feasible(&sv)) {
            ctx.bump("near_boundary_points_not_interior_for_the_implementation");
            continue;
        }
        let mu = vkit::dd::dot(&sv, &z).f() / 3.0;
        let ok = match vkit::report::catch(std::panic::AssertUnwindSafe(|| obj.update_scaling(&sv, &z, mu, ScalingStrategy::PrimalDual))) {
            Ok(b) => b,
            Err(msg) => {
                ctx.violation("panic", &format!("panic:{}", msg.rsplit(" @ ").next().unwrap_or("").replace("/repo/", "")), wl, case, json!({"panic": msg, "s": sv, "z": z}));
                continue;
            }
        };
        ctx.eval(1);
        ctx.nontrivial_n(1);
        if !ok {
            ctx.bump("near_boundary_scalings_declined");
            continue;
        }
        let st = obj.state();
        let n = 3;
        let hs = &st.hs;
        let name = k.name();
        let sym = (0..n).all(|a| (0..n).all(|b| hs[a * n + b].to_bits() == hs[b * n + a].to_bits() || (hs[a * n + b] - hs[b * n + a]).abs() <= 1e-12 * hs[a * n + b].abs()));
        let posdiag = (0..n).all(|a| hs[a * n + a] > 0.0);
        if !(sym && posdiag && hs.iter().all(|v| v.is_finite())) {
            ctx.violation(&format!("{name}:Hs_not_positive_definite"), &format!("{name}:Hs_not_positive_definite:near_boundary"), wl, case, json!({"cone": vkit::problem::cones_json(&[ct.clone()]), "s": sv, "z": z, "relative_depth_of_z": depth, "Hs": hs, "diagonal": [hs[0], hs[4], hs[8]]}));
        }
    }
    let wl = "unit_initialization";
    let total = if ctx.flavour == "miri" { ctx.count(6, 20) } else { ctx.count(600, 6000) };
    for case in ctx.cases(wl, total) {
        ctx.begin(wl, case);
        let mut rng = Rng::for_case(ctx.seed, "C14/unit_initialization", case);
        let r = vkit::report::catch(std::panic::AssertUnwindSafe(|| unit_init_case(ctx, wl, case, &mut rng)));
        if let Err(msg) = r {
            ctx.violation("panic", "panic:unit_init", wl, case, json!({"panic": msg}));
        }
    }
    ctx.sample(json!({"workload": "points", "what": "one random cone (Exp / Pow(alpha) / GenPow(alpha-vector,dim2)) with interior z and s; barrier value, gradient, Hessian, conjugacy, third-order correction, scalings"}));
}

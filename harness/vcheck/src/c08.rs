//! C08 — updating problem data in place is equivalent to rebuilding the solver.
//!
//! History + executable model: the model is four plain arrays (P-triu values, q, A values, b)
//! updated by the documented semantics; after every call the live solver is compared with it.
use crate::common::*;
use clarabel::algebra::CscMatrix;
use clarabel::solver::{DefaultSolver, SolverStatus};
use serde_json::{json, Value};
use vkit::gen::{self, GenOpts};
use vkit::kkt;
use vkit::problem::{self, status_name, verdict_class, Problem};
use vkit::report::catch;
use vkit::{Ctx, Rng};

fn rel_ulps(got: f64, want: f64) -> f64 {
    if got == want {
        return 0.0;
    }
    (got - want).abs() / (f64::EPSILON * want.abs().max(got.abs()).max(f64::MIN_POSITIVE))
}

/// entries untouched since construction went through up to 10 Ruiz rounds of successive scaling (cf. C10: 8+4*iters ulp);
/// entries rewritten by an update carry a single scaling.  A dropped or wrong factor is O(1) relative.
const ULPS: f64 = 64.0;

struct Model {
    p: CscMatrix<f64>, // triu pattern + current user-space values
    q: Vec<f64>,
    a: CscMatrix<f64>,
    b: Vec<f64>,
}

fn data_bits(s: &DefaultSolver<f64>) -> Vec<u64> {
    let d = &s.data;
    d.P.nzval.iter().chain(&d.q).chain(&d.A.nzval).chain(&d.b).map(|v| v.to_bits()).collect()
}

/// invariant (3): internal data = scaled model data; KKT and engine copies in sync
fn check_sync(s: &DefaultSolver<f64>, m: &Model, after_whole_matrix_update: Option<char>) -> Option<(String, Value)> {
    let d = &s.data;
    let eq = &d.equilibration;
    let n = m.q.len();
    let pc = &m.p;
    for j in 0..n {
        for k in pc.colptr[j]..pc.colptr[j + 1] {
            let i = pc.rowval[k];
            let want = eq.c * eq.d[i] * pc.nzval[k] * eq.d[j];
            if rel_ulps(d.P.nzval[k], want) > ULPS {
                return Some(("internal_P_ne_scaled_model".into(), json!({"entry": k, "got": d.P.nzval[k], "want": want})));
            }
        }
        for k in m.a.colptr[j]..m.a.colptr[j + 1] {
            let i = m.a.rowval[k];
            let want = eq.e[i] * m.a.nzval[k] * eq.d[j];
            if rel_ulps(d.A.nzval[k], want) > ULPS {
                return Some(("internal_A_ne_scaled_model".into(), json!({"entry": k, "got": d.A.nzval[k], "want": want})));
            }
        }
        let want = eq.c * eq.d[j] * m.q[j];
        if rel_ulps(d.q[j], want) > ULPS {
            return Some(("internal_q_ne_scaled_model".into(), json!({"j": j, "got": d.q[j], "want": want})));
        }
    }
    for i in 0..m.b.len() {
        let want = eq.e[i] * m.b[i];
        if rel_ulps(d.b[i], want) > ULPS {
            return Some(("internal_b_ne_scaled_model".into(), json!({"i": i, "got": d.b[i], "want": want})));
        }
    }
    let snap = s.kktsystem.verif_snapshot();
    for (t, &idx) in snap.map.P.iter().enumerate() {
        if snap.kkt.nzval[idx].to_bits() != d.P.nzval[t].to_bits() {
            return Some(("kkt_P_out_of_sync".into(), json!({"entry": t, "kkt": snap.kkt.nzval[idx], "data": d.P.nzval[t]})));
        }
    }
    for (t, &idx) in snap.map.A.iter().enumerate() {
        if snap.kkt.nzval[idx].to_bits() != d.A.nzval[t].to_bits() {
            return Some(("kkt_A_out_of_sync".into(), json!({"entry": t, "kkt": snap.kkt.nzval[idx], "data": d.A.nzval[t]})));
        }
    }
    if snap.engine.values.len() == snap.kkt.nnz() {
        let diag: std::collections::HashSet<usize> = snap.map.diag_full.iter().copied().collect();
        for (t, &idx) in snap.map.A.iter().enumerate() {
            if snap.engine.values[idx].to_bits() != d.A.nzval[t].to_bits() {
                return Some(("engine_A_out_of_sync".into(), json!({"entry": t, "engine": snap.engine.values[idx], "data": d.A.nzval[t], "engine_name": snap.engine.name})));
            }
        }
        for (t, &idx) in snap.map.P.iter().enumerate() {
            let is_diag = diag.contains(&idx);
            if (!is_diag || after_whole_matrix_update == Some('P')) && snap.engine.values[idx].to_bits() != d.P.nzval[t].to_bits() {
                return Some(("engine_P_out_of_sync".into(), json!({"entry": t, "engine": snap.engine.values[idx], "data": d.P.nzval[t], "diagonal": is_diag, "engine_name": snap.engine.name})));
            }
        }
    }
    None
}

/// PSD-preserving new values for P: congruence with a positive diagonal (same pattern)
fn p_congruence(rng: &mut Rng, p: &CscMatrix<f64>) -> Vec<f64> {
    let n = p.n;
    let dd: Vec<f64> = (0..n).map(|_| rng.range(0.5, 2.0)).collect();
    let mut v = p.nzval.clone();
    for j in 0..n {
        for k in p.colptr[j]..p.colptr[j + 1] {
            v[k] *= dd[p.rowval[k]] * dd[j];
        }
    }
    v
}

pub fn run(ctx: &mut Ctx) {
    let wl = "histories";
    let bound = clarabel::get_infinity();
    let total = if ctx.flavour == "miri" { ctx.count(6, 20) } else { ctx.count(500, 6000) };
    for case in ctx.cases(wl, total) {
        if ctx.out_of_budget() {
            continue;
        }
        ctx.begin(wl, case);
        let mut rng = Rng::for_case(ctx.seed, "C08/histories", case);
        let mut o = GenOpts { kinds: gen::all_kinds(), ..Default::default() };
        if ctx.flavour == "miri" {
            o.nmax = 3;
            o.mmax = 7;
            o.psd_max = 2;
        } else {
            o.nmax = *rng.choose(&[3, 8, 14]);
            o.mmax = *rng.choose(&[8, 20, 36]);
        }
        let pl = gen::planted_wellposed(&mut rng, &o);
        let p0 = pl.problem.clone();
        let mut st = gen::default_settings();
        st.equilibrate_enable = rng.bool(0.75);
        st.presolve_enable = rng.bool(0.7); // no infinite bounds planted => presolver inactive unless chosen below
        st.direct_solve_method = if cfg!(feature = "faer") && ctx.flavour != "miri" && rng.bool(0.3) { "faer".into() } else { "qdldl".into() };
        // a slice of the histories runs against a solver whose presolver is active: everything must be rejected
        let presolve_active = rng.bool(0.08) && st.presolve_enable && {
            use vkit::cones::{cone_ranges, ConeT};
            p0.cones.iter().zip(cone_ranges(&p0.cones)).any(|(c, r)| matches!(c, ConeT::NonnegativeConeT(_)) && r.len() > 0)
        };
        let mut p_user = p0.clone();
        if presolve_active {
            use vkit::cones::{cone_ranges, ConeT};
            for (c, r) in p0.cones.iter().zip(cone_ranges(&p0.cones)) {
                if let ConeT::NonnegativeConeT(_) = c {
                    if let Some(i) = r.clone().next() {
                        p_user.b[i] = 1e30;
                        break;
                    }
                }
            }
        }
        let mut solver = match problem::new_solver(&p_user, &st) {
            Ok(s) => s,
            Err(msg) => {
                ctx.inconclusive(&format!("construction panicked: {msg}"), wl, case);
                continue;
            }
        };
        let mut model = Model { p: p_user.P.to_triu(), q: p_user.q.clone(), a: p_user.A.clone(), b: p_user.b.iter().map(|v| v.min(bound)).collect() };
        let (nnzp, nnza, n, m) = (model.p.nnz(), model.a.nnz(), model.q.len(), model.b.len());
        let hist_len = rng.usize(1, 12);
        let mut hist: Vec<Value> = vec![];
        let mut retired = false;
        let mut fail: Option<(String, Value)> = None;
        ctx.nontrivial_hash(p0.hash() ^ case);
        for _step in 0..hist_len {
            if fail.is_some() || retired {
                break;
            }
            let op = rng.usize(0, 10);
            if op == 10 {
                // ---- poison and repair: a non-finite value goes in through an ACCEPTED partial update (there is no
                // finiteness check), the solver may be asked to solve the poisoned problem, and the same entry is then
                // set back to the model's value.  The final data are the model's again, so every later solve must
                // behave like a fresh solver: nothing non-finite may survive in a workspace, cache or factorisation
                if presolve_active {
                    continue;
                }
                let target = *rng.choose(&['q', 'b', 'A', 'P']);
                let len = match target {
                    'q' => n,
                    'b' => m,
                    'A' => nnza,
                    _ => nnzp,
                };
                if len == 0 {
                    continue;
                }
                let k = rng.usize(0, len - 1);
                let bad = *rng.choose(&[f64::NAN, f64::INFINITY, f64::NEG_INFINITY]);
                let good = match target {
                    'q' => model.q[k],
                    'b' => model.b[k],
                    'A' => model.a.nzval[k],
                    _ => model.p.nzval[k],
                };
                macro_rules! map_err {
                    ($e:expr) => {
                        $e.map_err(|e| format!("{e:?}"))
                    };
                }
                let apply = |solver: &mut DefaultSolver<f64>, v: f64| -> Result<(), String> {
                    let tup = (vec![k], vec![v]);
                    catch(std::panic::AssertUnwindSafe(|| match target {
                        'q' => map_err!(solver.update_q(&tup)),
                        'b' => map_err!(solver.update_b(&tup)),
                        'A' => map_err!(solver.update_A(&tup)),
                        _ => map_err!(solver.update_P(&tup)),
                    }))
                    .unwrap_or_else(|e| Err(format!("PANIC {e}")))
                };
                let r1 = apply(&mut solver, bad);
                let mut poisoned_status = None;
                if r1.is_ok() && rng.bool(0.7) {
                    // whatever this solve does (it is not a well-formed problem) is not judged, a panic included
                    poisoned_status = match problem::solve_observed(&mut solver) {
                        Ok(_) => Some(status_name(solver.solution.status).to_string()),
                        Err(_) => Some("panic".to_string()),
                    };
                }
                let r2 = apply(&mut solver, good);
                hist.push(json!({"op": format!("poison_and_repair_{target}"), "index": k, "value": problem::fj(bad), "poison_result": format!("{r1:?}"), "solve_while_poisoned": poisoned_status, "repair_result": format!("{r2:?}")}));
                ctx.bump("poison_and_repair_steps");
                if r1.is_ok() && r2.is_err() {
                    fail = Some(("repair_update_refused".into(), json!({"result": format!("{r2:?}")})));
                }
                if r1.is_err() {
                    ctx.bump("poison_updates_refused");
                }
                continue;
            }
            if op >= 7 {
                // ---- solve and compare with a freshly built solver on the model data
                let ev = problem::solve_observed(&mut solver);
                let res = match ev {
                    Ok(e) => problem::extract(&solver, e),
                    Err(msg) => {
                        fail = Some(("solve_panicked".into(), json!({"panic": msg})));
                        break;
                    }
                };
                hist.push(json!({"op": "solve", "status": status_name(res.status), "obj": problem::fj(res.obj_val)}));
                ctx.eval(1);
                ctx.bump("solves_in_histories");
                if presolve_active {
                    continue;
                }
                let pm_problem = Problem { P: model.p.clone(), q: model.q.clone(), A: model.a.clone(), b: model.b.clone(), cones: p0.cones.clone() };
                let pm = presolve_model(&pm_problem, &st, &res, bound);
                let evk = eval_with_model(&pm_problem, &res, &pm, bound);
                if res.status == SolverStatus::Solved {
                    for (o, d) in kkt::judge_solved(&evk, st.tol_feas, st.tol_gap_abs, st.tol_gap_rel, 1.0) {
                        fail = Some((format!("live_result_vs_model_data:{o}"), d));
                    }
                    // reported figures against the model data (stale caches show here)
                    let tp = 1e-6 * evk.res_p.max(res.r_prim.abs()) + 16.0 * evk.slack_res_p + 1e-300;
                    let td = 1e-6 * evk.res_d.max(res.r_dual.abs()) + 16.0 * evk.slack_res_d + 1e-300;
                    if !((res.r_prim - evk.res_p).abs() <= tp) {
                        fail = Some(("reported_r_prim_vs_model_data".into(), json!({"reported": res.r_prim, "recomputed": evk.res_p})));
                    }
                    if !((res.r_dual - evk.res_d).abs() <= td) {
                        fail = Some(("reported_r_dual_vs_model_data".into(), json!({"reported": res.r_dual, "recomputed": evk.res_d})));
                    }
                    if !((res.obj_val - evk.p_obj).abs() <= 8.0 * evk.slack_obj + 1e-300) {
                        fail = Some(("reported_obj_vs_model_data".into(), json!({"reported": res.obj_val, "recomputed": evk.p_obj})));
                    }
                }
                if problem::is_infeasible_status(res.status) {
                    // C02/C03 oracles against the model data: NaN objectives, valid certificate
                    if !(res.obj_val.is_nan() && res.obj_val_dual.is_nan()) {
                        fail = Some(("infeasible_verdict_with_non_nan_objective".into(), json!({"obj_val": problem::fj(res.obj_val), "obj_val_dual": problem::fj(res.obj_val_dual), "status": status_name(res.status)})));
                    }
                    if let Some(fe) = res.final_event() {
                        let almost = matches!(res.status, SolverStatus::AlmostPrimalInfeasible | SolverStatus::AlmostDualInfeasible);
                        let is_p = matches!(res.status, SolverStatus::PrimalInfeasible | SolverStatus::AlmostPrimalInfeasible);
                        let (ta, tr) = if almost { (st.reduced_tol_infeas_abs, st.reduced_tol_infeas_rel) } else { (st.tol_infeas_abs, st.tol_infeas_rel) };
                        for (o, d) in judge_certificate(&evk, is_p, fe.κ, res.c, ta, tr) {
                            fail = Some((format!("live_certificate_vs_model_data:{o}"), d));
                        }
                    }
                    ctx.bump("infeasible_verdicts_in_histories");
                }
                if let Ok(fresh) = problem::run(&pm_problem, &st) {
                    ctx.eval(1);
                    let (vl, vf) = (verdict_class(res.status), verdict_class(fresh.status));
                    // the very first iterate of the live solver reports finite figures wherever the fresh solver's
                    // does: the model data are finite, so a NaN there is state that survived from an earlier
                    // (possibly poisoned) solve - a run that ends without verdict is not compared otherwise
                    if let (Some(l0), Some(f0)) = (res.events.first(), fresh.events.first()) {
                        let fig = |e: &clarabel::verif::IterEvent| [e.res_primal, e.res_dual, e.res_primal_inf, e.res_dual_inf, e.cost_primal, e.cost_dual, e.μ];
                        let names = ["res_primal", "res_dual", "res_primal_inf", "res_dual_inf", "cost_primal", "cost_dual", "mu"];
                        for (k, (a, b)) in fig(l0).iter().zip(fig(f0).iter()).enumerate() {
                            if b.is_finite() && !a.is_finite() && fail.is_none() {
                                fail = Some(("non_finite_state_in_live_solver".into(), json!({"figure": names[k], "live_first_iterate": problem::fj(*a), "fresh_first_iterate": *b, "live_status": status_name(res.status), "fresh_status": status_name(fresh.status)})));
                            }
                        }
                    }
                    // a problem that is primal AND dual infeasible admits either verdict: a P/D pair is accepted
                    // when the fresh solver's certificate also passes the documented test on the model data (the
                    // live one was judged above)
                    let mut both_infeasible = false;
                    if (vl == 'P' && vf == 'D') || (vl == 'D' && vf == 'P') {
                        if let Some(fe) = fresh.final_event() {
                            let pmf = presolve_model(&pm_problem, &st, &fresh, bound);
                            let evf = eval_with_model(&pm_problem, &fresh, &pmf, bound);
                            let almost = matches!(fresh.status, SolverStatus::AlmostPrimalInfeasible | SolverStatus::AlmostDualInfeasible);
                            let (ta, tr) = if almost { (st.reduced_tol_infeas_abs, st.reduced_tol_infeas_rel) } else { (st.tol_infeas_abs, st.tol_infeas_rel) };
                            both_infeasible = judge_certificate(&evf, vf == 'P', fe.κ, fresh.c, ta, tr).is_empty() && fail.is_none();
                        }
                    }
                    // a random update can leave the problem within tolerance of infeasibility: then a point passing
                    // the documented optimality test AND a certificate passing the documented infeasibility test both
                    // exist, and either verdict is what the documentation promises.  Accepted only when the fresh
                    // solver's result passes its own documented test on the model data (the live one was judged above).
                    let mut both_within_tolerance = false;
                    if fail.is_none() && ((vl == 'S' && (vf == 'P' || vf == 'D')) || (vf == 'S' && (vl == 'P' || vl == 'D'))) {
                        // each result against the documented test of ITS OWN status (full or reduced accuracy) on the
                        // model data; the live infeasibility certificate and a live Solved were judged above already
                        let passes_own_test = |r: &problem::SolveResult| -> bool {
                            let pmr = presolve_model(&pm_problem, &st, r, bound);
                            let evr = eval_with_model(&pm_problem, r, &pmr, bound);
                            match r.status {
                                SolverStatus::Solved => kkt::judge_solved(&evr, st.tol_feas, st.tol_gap_abs, st.tol_gap_rel, 1.0).is_empty(),
                                SolverStatus::AlmostSolved => kkt::judge_solved(&evr, st.reduced_tol_feas, st.reduced_tol_gap_abs, st.reduced_tol_gap_rel, 1.0).is_empty(),
                                sx if problem::is_infeasible_status(sx) => match r.final_event() {
                                    Some(fe) => {
                                        let almost = matches!(sx, SolverStatus::AlmostPrimalInfeasible | SolverStatus::AlmostDualInfeasible);
                                        let is_p = matches!(sx, SolverStatus::PrimalInfeasible | SolverStatus::AlmostPrimalInfeasible);
                                        let (ta, tr) = if almost { (st.reduced_tol_infeas_abs, st.reduced_tol_infeas_rel) } else { (st.tol_infeas_abs, st.tol_infeas_rel) };
                                        judge_certificate(&evr, is_p, fe.κ, r.c, ta, tr).is_empty()
                                    }
                                    None => false,
                                },
                                _ => false,
                            }
                        };
                        both_within_tolerance = passes_own_test(&res) && passes_own_test(&fresh);
                    }
                    if both_infeasible {
                        ctx.bump("primal_and_dual_infeasible_after_update_(either_verdict_valid)");
                    } else if both_within_tolerance {
                        ctx.bump("solution_and_certificate_both_within_tolerance_after_update_(ill-posed)");
                    } else if vl != '-' && vf != '-' && vl != vf {
                        fail = Some(("verdict_differs_from_fresh_solver".into(), json!({"live": status_name(res.status), "fresh": status_name(fresh.status)})));
                    } else if res.status == SolverStatus::Solved && fresh.status == SolverStatus::Solved {
                        let den = fresh.obj_val.abs().max(1.0);
                        // two points that both pass the documented test may differ in objective by their gaps plus
                        // |r_p'z| + |r_d'x| (weak duality with residuals), and the documented residual test only bounds
                        // r_p by tol_feas*max(1,|b|+|x|+|s|) and r_d by tol_feas*max(1,|q|+|x|+|z|): the slack follows
                        let ninf = |v: &[f64]| v.iter().fold(0.0f64, |m, x| m.max(x.abs()));
                        let n1 = |v: &[f64]| v.iter().map(|x| x.abs()).sum::<f64>();
                        let mut feas_slack = 0.0;
                        for r in [&res, &fresh] {
                            let bn = ninf(&pm_problem.b.iter().map(|v| v.min(bound)).collect::<Vec<_>>());
                            feas_slack += st.tol_feas * ((1.0f64).max(bn + ninf(&r.x) + ninf(&r.s)) * n1(&r.z) + (1.0f64).max(ninf(&pm_problem.q) + ninf(&r.x) + ninf(&r.z)) * n1(&r.x));
                        }
                        let tol = 20.0 * (st.tol_gap_abs + st.tol_gap_rel * den) + 1e-6 * den + 4.0 * feas_slack;
                        if !((res.obj_val - fresh.obj_val).abs() <= tol) {
                            fail = Some(("objective_differs_from_fresh_solver".into(), json!({"live": res.obj_val, "fresh": fresh.obj_val, "tol": tol})));
                        }
                        ctx.bump("live_vs_fresh_both_solved");
                    }
                }
                continue;
            }
            // ---- an update operation
            let target = *rng.choose(&['P', 'q', 'A', 'b', 'D']);
            let form = rng.usize(0, 5); // 0 whole vec, 1 matrix/whole, 2 tuple partial, 3 empty, 4 invalid length, 5 invalid index / pattern
            let before = data_bits(&solver);
            let mut expect_ok = !presolve_active;
            let mut whole_reject = false;
            let mut desc = json!({"op": format!("update_{target}"), "form": form});
            let result: Result<(), String>;
            let mut whole_matrix: Option<char> = None;
            macro_rules! map_err {
                ($e:expr) => {
                    $e.map_err(|e| format!("{e:?}"))
                };
            }
            match target {
                'q' | 'b' => {
                    let len = if target == 'q' { n } else { m };
                    let cur: Vec<f64> = if target == 'q' { model.q.clone() } else { model.b.clone() };
                    match form {
                        0 | 1 => {
                            let big = if rng.bool(0.25) { 10.0 } else { 1.0 };
                            let v: Vec<f64> = cur.iter().map(|x| x + big * rng.range(-0.3, 0.3)).collect();
                            result = catch(std::panic::AssertUnwindSafe(|| if target == 'q' { map_err!(solver.update_q(&v)) } else { map_err!(solver.update_b(&v)) })).unwrap_or_else(|e| Err(format!("PANIC {e}")));
                            if expect_ok && len > 0 {
                                if target == 'q' {
                                    model.q = v.clone();
                                } else {
                                    model.b = v.clone();
                                }
                            }
                            desc["values"] = json!(v);
                        }
                        2 => {
                            let k = rng.usize(0, len.min(4));
                            let idx: Vec<usize> = (0..k).map(|_| rng.usize(0, len.max(1) - 1)).collect();
                            let vals: Vec<f64> = idx.iter().map(|&i| cur.get(i).copied().unwrap_or(0.0) + rng.range(-0.3, 0.3)).collect();
                            let tup = (idx.clone(), vals.clone());
                            result = catch(std::panic::AssertUnwindSafe(|| if target == 'q' { map_err!(solver.update_q(&tup)) } else { map_err!(solver.update_b(&tup)) })).unwrap_or_else(|e| Err(format!("PANIC {e}")));
                            if expect_ok && len > 0 {
                                for (t, &i) in idx.iter().enumerate() {
                                    if target == 'q' {
                                        model.q[i] = vals[t];
                                    } else {
                                        model.b[i] = vals[t];
                                    }
                                }
                            }
                            desc["index"] = json!(idx);
                            desc["values"] = json!(vals);
                        }
                        3 => {
                            // the empty update in each of its spellings: array, Vec, empty (index,value) pair
                            match rng.usize(0, 2) {
                                0 => {
                                    let v: [f64; 0] = [];
                                    result = catch(std::panic::AssertUnwindSafe(|| if target == 'q' { map_err!(solver.update_q(&v)) } else { map_err!(solver.update_b(&v)) })).unwrap_or_else(|e| Err(format!("PANIC {e}")));
                                    desc["empty_as"] = json!("array");
                                }
                                1 => {
                                    let v: Vec<f64> = vec![];
                                    result = catch(std::panic::AssertUnwindSafe(|| if target == 'q' { map_err!(solver.update_q(&v)) } else { map_err!(solver.update_b(&v)) })).unwrap_or_else(|e| Err(format!("PANIC {e}")));
                                    desc["empty_as"] = json!("Vec");
                                }
                                _ => {
                                    let tup: (Vec<usize>, Vec<f64>) = (vec![], vec![]);
                                    result = catch(std::panic::AssertUnwindSafe(|| if target == 'q' { map_err!(solver.update_q(&tup)) } else { map_err!(solver.update_b(&tup)) })).unwrap_or_else(|e| Err(format!("PANIC {e}")));
                                    desc["empty_as"] = json!("index-value pair");
                                }
                            }
                        }
                        4 => {
                            let v = vec![1.0; len + 1];
                            result = catch(std::panic::AssertUnwindSafe(|| if target == 'q' { map_err!(solver.update_q(&v)) } else { map_err!(solver.update_b(&v)) })).unwrap_or_else(|e| Err(format!("PANIC {e}")));
                            expect_ok = false;
                            whole_reject = true;
                        }
                        _ => {
                            let tup = (vec![len + rng.usize(0, 2)], vec![1.0]);
                            result = catch(std::panic::AssertUnwindSafe(|| if target == 'q' { map_err!(solver.update_q(&tup)) } else { map_err!(solver.update_b(&tup)) })).unwrap_or_else(|e| Err(format!("PANIC {e}")));
                            expect_ok = false;
                            whole_reject = true; // a single out-of-range entry and nothing before it: data must be untouched
                        }
                    }
                }
                'P' | 'A' => {
                    let (nnz, cur) = if target == 'P' { (nnzp, model.p.clone()) } else { (nnza, model.a.clone()) };
                    match form {
                        0 | 1 => {
                            let vals: Vec<f64> = if target == 'P' { p_congruence(&mut rng, &cur) } else { cur.nzval.iter().map(|x| x + rng.range(-0.2, 0.2)).collect() };
                            if form == 0 {
                                result = catch(std::panic::AssertUnwindSafe(|| if target == 'P' { map_err!(solver.update_P(&vals)) } else { map_err!(solver.update_A(&vals)) })).unwrap_or_else(|e| Err(format!("PANIC {e}")));
                            } else {
                                let mut mm = cur.clone();
                                mm.nzval = vals.clone();
                                result = catch(std::panic::AssertUnwindSafe(|| if target == 'P' { map_err!(solver.update_P(&mm)) } else { map_err!(solver.update_A(&mm)) })).unwrap_or_else(|e| Err(format!("PANIC {e}")));
                            }
                            if expect_ok && nnz > 0 {
                                if target == 'P' {
                                    model.p.nzval = vals.clone();
                                } else {
                                    model.a.nzval = vals.clone();
                                }
                                whole_matrix = Some(target);
                            }
                            desc["values"] = json!(vals);
                        }
                        2 => {
                            let k = rng.usize(0, nnz.min(5));
                            // unsorted, possibly repeated indices, spanning several columns
                            let idx: Vec<usize> = (0..k).map(|_| rng.usize(0, nnz.max(1) - 1)).collect();
                            let vals: Vec<f64> = idx
                                .iter()
                                .map(|&i| {
                                    if target == 'P' {
                                        // only raise diagonal entries / keep off-diagonals: stays PSD
                                        let (r, c) = cur.index_to_coord(i);
                                        if r == c {
                                            cur.nzval[i] + rng.range(0.0, 1.0)
                                        } else {
                                            cur.nzval[i]
                                        }
                                    } else {
                                        cur.nzval[i] + rng.range(-0.2, 0.2)
                                    }
                                })
                                .collect();
                            let tup = (idx.clone(), vals.clone());
                            result = catch(std::panic::AssertUnwindSafe(|| if target == 'P' { map_err!(solver.update_P(&tup)) } else { map_err!(solver.update_A(&tup)) })).unwrap_or_else(|e| Err(format!("PANIC {e}")));
                            if expect_ok && nnz > 0 {
                                for (t, &i) in idx.iter().enumerate() {
                                    if target == 'P' {
                                        model.p.nzval[i] = vals[t];
                                    } else {
                                        model.a.nzval[i] = vals[t];
                                    }
                                }
                            }
                            desc["index"] = json!(idx);
                            desc["values"] = json!(vals);
                        }
                        3 => {
                            let v: [f64; 0] = [];
                            result = catch(std::panic::AssertUnwindSafe(|| if target == 'P' { map_err!(solver.update_P(&v)) } else { map_err!(solver.update_A(&v)) })).unwrap_or_else(|e| Err(format!("PANIC {e}")));
                        }
                        4 => {
                            let v = vec![1.0; nnz + 1];
                            result = catch(std::panic::AssertUnwindSafe(|| if target == 'P' { map_err!(solver.update_P(&v)) } else { map_err!(solver.update_A(&v)) })).unwrap_or_else(|e| Err(format!("PANIC {e}")));
                            expect_ok = false;
                            whole_reject = true;
                        }
                        _ => {
                            // matrix with a different pattern (same size)
                            let (mm_m, mm_n) = (cur.m, cur.n);
                            let mut dd = vkit::dense::Dense::zeros(mm_m, mm_n);
                            if mm_m > 0 && mm_n > 0 {
                                for j in 0..mm_n {
                                    dd.set(0, j, 1.0);
                                }
                            }
                            let mm = dd.to_csc();
                            let differs = mm.colptr != cur.colptr || mm.rowval != cur.rowval;
                            result = catch(std::panic::AssertUnwindSafe(|| if target == 'P' { map_err!(solver.update_P(&mm)) } else { map_err!(solver.update_A(&mm)) })).unwrap_or_else(|e| Err(format!("PANIC {e}")));
                            if differs {
                                expect_ok = false;
                                whole_reject = true;
                            } else if expect_ok {
                                if target == 'P' {
                                    model.p.nzval = mm.nzval.clone();
                                } else {
                                    model.a.nzval = mm.nzval.clone();
                                }
                            }
                        }
                    }
                }
                _ => {
                    // update_data = four updates in order; here: new q and b, empty P and A
                    let vq: Vec<f64> = model.q.iter().map(|x| x + rng.range(-0.3, 0.3)).collect();
                    let vb: Vec<f64> = model.b.iter().map(|x| x + rng.range(-0.3, 0.3)).collect();
                    let e0: [f64; 0] = [];
                    if !presolve_active && m > 0 && rng.bool(0.3) {
                        // a composite call whose leading terms are fine and whose LAST term is refused (b of the wrong
                        // length): update_data is "the four updates in order", so P, q and A are applied and the
                        // error comes back; whatever has been applied must have reached every copy (data, KKT, engine)
                        // (a congruence keeps P positive semidefinite; an entrywise perturbation need not)
                        let vp: Vec<f64> = p_congruence(&mut rng, &model.p);
                        let va: Vec<f64> = model.a.nzval.iter().map(|x| x * rng.range(0.9, 1.1) + 0.01 * rng.range(-1.0, 1.0)).collect();
                        let vbad = vec![1.0; m + 1];
                        result = catch(std::panic::AssertUnwindSafe(|| map_err!(solver.update_data(&vp, &vq, &va, &vbad)))).unwrap_or_else(|e| Err(format!("PANIC {e}")));
                        expect_ok = false;
                        if !vp.is_empty() {
                            model.p.nzval = vp.clone();
                        }
                        if n > 0 {
                            model.q = vq.clone();
                        }
                        if !va.is_empty() {
                            model.a.nzval = va.clone();
                        }
                        desc["composite_with_refused_last_term"] = json!(true);
                        desc["P"] = json!(vp);
                        desc["A"] = json!(va);
                        desc["q"] = json!(vq);
                        desc["result"] = json!(format!("{result:?}"));
                        hist.push(desc);
                        ctx.eval(1);
                        ctx.bump("op_update_data_with_refused_last_term");
                        match &result {
                            Err(e) if e.starts_with("PANIC") => fail = Some(("update_panicked".into(), json!({"panic": e}))),
                            Ok(()) => fail = Some(("invalid_update_accepted".into(), json!({"composite": true}))),
                            Err(e) if !e.contains("IncompatibleDimension") => fail = Some(("wrong_error_kind".into(), json!({"error": e, "expected": "IncompatibleDimension"}))),
                            Err(_) => {}
                        }
                        if fail.is_none() {
                            if let Some(f) = check_sync(&solver, &model, None) {
                                fail = Some((format!("{}:after_partly_refused_update_data", f.0), f.1));
                            }
                        }
                        continue;
                    }
                    result = catch(std::panic::AssertUnwindSafe(|| map_err!(solver.update_data(&e0, &vq, &e0, &vb)))).unwrap_or_else(|e| Err(format!("PANIC {e}")));
                    if expect_ok {
                        if n > 0 {
                            model.q = vq.clone();
                        }
                        if m > 0 {
                            model.b = vb.clone();
                        }
                    }
                    desc["q"] = json!(vq);
                    desc["b"] = json!(vb);
                }
            }
            desc["result"] = json!(format!("{result:?}"));
            hist.push(desc);
            ctx.eval(1);
            ctx.bump(&format!("op_update_{target}_form{form}"));
            // (1) accept / reject as the model predicts, with the right error kind
            match &result {
                Err(e) if e.starts_with("PANIC") => {
                    fail = Some(("update_panicked".into(), json!({"panic": e})));
                }
                Ok(()) if !expect_ok => {
                    fail = Some(("invalid_update_accepted".into(), json!({"presolve_active": presolve_active})));
                }
                Err(e) if expect_ok => {
                    fail = Some(("valid_update_rejected".into(), json!({"error": e})));
                }
                Err(e) => {
                    let want_kind = if presolve_active { "PresolveIsActive" } else if form == 5 && (target == 'P' || target == 'A') { "SparsityMismatch" } else { "IncompatibleDimension" };
                    if !e.contains(want_kind) {
                        fail = Some(("wrong_error_kind".into(), json!({"error": e, "expected": want_kind})));
                    }
                    ctx.bump("rejected_updates");
                    // (2) rejected whole forms leave the data bitwise untouched
                    if (whole_reject || presolve_active) && data_bits(&solver) != before {
                        fail = Some(("rejected_update_modified_data".into(), json!({})));
                    }
                }
                Ok(()) => {
                    ctx.bump("accepted_updates");
                    if form == 3 && target != 'D' && data_bits(&solver) != before {
                        fail = Some(("empty_update_modified_data".into(), json!({})));
                    }
                }
            }
            if fail.is_none() && !presolve_active {
                if let Some(f) = check_sync(&solver, &model, whole_matrix) {
                    fail = Some(f);
                }
            }
            let _ = &mut retired;
        }
        ctx.bump(&format!("history_len_{:02}", hist.len().min(12)));
        if let Some((o, d)) = fail {
            ctx.violation(&o, &o, wl, case, json!({"initial_problem": p_user.to_json(), "settings": problem::settings_json(&st), "presolve_active": presolve_active, "history": hist, "check": d}));
        }
        if case < 2 {
            ctx.sample(json!({"workload": wl, "n": n, "m": m, "history": hist}));
        }
    }
}

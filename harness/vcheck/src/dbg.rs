//! ad-hoc debugging entry: vcheck dbg --replay <workload>:<case> (reuses generators by name)
use vkit::cones::*;
use vkit::problem;
use vkit::{Ctx, Rng};

pub fn run(ctx: &mut Ctx) {
    let (wl, case) = ctx.replay.clone().expect("dbg needs --replay");
    if wl == "powgrad" {
        use clarabel::verif::PowerCone;
        for (a, sv) in [(0.5, [1.0, 1.0, 0.5]), (0.5, [2.0, 3.0, -1.0]), (0.3, [1.0, 1.0, 0.5]), (0.7, [1.0, 1.0, 0.5]), (0.3, [1.0, 1.0, 0.05]), (0.3, [1.0, 1.0, 0.9]), (0.9, [1.0, 1.0, 0.5]), (0.1, [1.0, 1.0, 0.5])] {
            let c = PowerCone::<f64>::new(a);
            let g = c.verif_gradient_primal(&sv);
            let mg: Vec<f64> = g.iter().map(|v| -v).collect();
            let f = move |v: &[vkit::jet::Jet3]| {
                let al = [a, 1.0 - a];
                let mut lg = vkit::jet::Jet3::constant(0.0);
                for i in 0..2 {
                    lg = lg + vkit::jet::Jet3::constant(2.0 * al[i]) * (v[i] / vkit::jet::Jet3::constant(al[i])).ln();
                }
                let mut b = -((lg.exp() - v[2] * v[2]).ln());
                for i in 0..2 {
                    b = b - vkit::jet::Jet3::constant(1.0 - al[i]) * v[i].ln();
                }
                b
            };
            let back = vkit::jet::Deriv { f: &f, x: mg.clone() }.gradient();
            println!("alpha {a} s {sv:?} g {g:?} grad f*(-g) {back:?}  (want {:?})", sv.iter().map(|v| -v).collect::<Vec<_>>());
        }
        return;
    }
    if wl == "C05r" {
        crate::c05::dbg_repeat(ctx.seed, case);
        return;
    }
    if wl == "C05v" {
        crate::c05::dbg_variants(ctx.seed, case, 10);
        return;
    }
    let (p, st) = match wl.as_str() {
        "C06" => {
            let mut rng = Rng::for_case(ctx.seed, "C06/family_G", case);
            (crate::c06::family_g(&mut rng).problem, vkit::gen::default_settings())
        }
        _ => panic!("unknown dbg workload"),
    };
    let (r, ev, cones) = problem::run_traced(&p, &st);
    println!("result: {:?}", r.as_ref().map(|x| problem::status_name(x.status)));
    println!("cones: {}", problem::cones_json(&cones));
    for e in &ev {
        let mut worst = (f64::INFINITY, 0, 'z');
        for (i, (c, rg)) in cones.iter().zip(cone_ranges(&cones)).enumerate() {
            if cone_dim(c) == 0 || matches!(c, ConeT::ZeroConeT(_)) {
                continue;
            }
            let (mz, sz) = margin(c, &e.z[rg.clone()], true);
            let (ms, ss) = margin(c, &e.s[rg.clone()], false);
            if mz / sz < worst.0 {
                worst = (mz / sz, i, 'z');
            }
            if ms / ss < worst.0 {
                worst = (ms / ss, i, 's');
            }
        }
        println!("it {:3} alpha {:.3e} tau {:.3e} kappa {:.3e} mu {:.3e} worst rel margin {:.3e} (cone {} {})", e.iterations, e.step_length, e.τ, e.κ, e.μ, worst.0, worst.1, worst.2);
    }
}

"""Per-property run plans: which flavours/shards/scales each tier runs, the oracle in one sentence
(evidence `rule`), and the assumptions / trusted base."""

BASE_ASSUME = [
    "vkit oracles (double-double arithmetic, dense models, Jacobi eigen/SVD in refla) are correct; they are self-tested by `./setup.sh`",
    "the Rust toolchain, serde_json and the test machine's IEEE-754 arithmetic",
    "reach is limited to the generated inputs: held on the executions observed, not a proof",
]
PSD_ASSUME = ["PSD code paths run against refblas (pure-Rust reference BLAS/LAPACK stubs patched in for blas-src/lapack-src)"]


def runs(quick, thorough):
    return {"quick": quick, "thorough": thorough}


MON16 = {"flavour": "mon", "shards": 16}

PLAN = {}

PLAN["C16"] = {
    "rule": "every public CscMatrix operation is run on all sparsity patterns of shapes <=3x3 and 4x3 (values in {-2..2}, exact arithmetic => exact "
            "equality with a dense row-major model), on all triplet sequences over a 2x2 grid up to length 4 (quick) / 5 (thorough), on random "
            "larger shapes (1e-13 relative), and check_format/canonicalize on every small encoding (m,n<=2, colptr entries<=4, <=3 rows); a case is "
            "non-trivial/distinct when it is a distinct (shape, pattern) / triplet sequence / encoding / random matrix (content hash)",
    "assumptions": BASE_ASSUME + ["gemv/symv are reached through thin public wrappers added under the `verif` feature"],
    "runs": runs(
        [dict(MON16, budget=120), {"flavour": "miri", "shards": 8, "budget": 200, "timeout": 900}],
        [dict(MON16, budget=600), {"flavour": "asan", "shards": 16, "scale": 0.3, "budget": 600},
         {"flavour": "miri", "shards": 16, "budget": 600, "timeout": 2400}],
    ),
}

PLAN["C12"] = {
    "rule": "public clarabel::qdldl API: every triu pattern for n<=4 x all n! orderings x all 2^n D-sign vectors (exact small-integer data) plus float data "
            "with regularisation off and AMD ordering; planted wrong-sign/zero/tiny pivots; exact zero pivots; all vectors in {0..n}^n (n<=4) as "
            "candidate permutations; random banded/arrow/block/KKT matrices (n<=60 quick, 120 thorough); update/scale/offset/refactor histories. "
            "Oracles: double-double dense reference LDL' with the same regularisation rule (decisions inside the f64 rounding band are don't-care), "
            "reconstruction |PAP'-LDL'|<=c n u |L||D||L'|, solve residual, inertia=#D>0=#positive eigenvalues, regularised pivots = delta*sign exactly and "
            "counted, refactor bit-identical to a fresh factorisation, error contract (Err never Ok). distinct = distinct (n,pattern) / vector / matrix hash",
    "assumptions": BASE_ASSUME + ["forward comparison of individual pivots is made only under bounded growth (accumulated mag/|D| <= 1e8)"],
    "runs": runs(
        [dict(MON16, budget=120), {"flavour": "miri", "shards": 16, "budget": 300, "timeout": 1200}],
        [dict(MON16, budget=600), {"flavour": "asan", "shards": 16, "scale": 0.5, "budget": 600},
         {"flavour": "miri", "shards": 16, "budget": 900, "timeout": 3000}],
    ),
}

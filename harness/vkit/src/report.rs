//! Shard-side bookkeeping: what was evaluated, what was observed, which oracle
//! was refuted on which input.  One `Report` per shard process is written as
//! JSON; the python driver merges shards, applies known findings and writes the
//! evidence file.

use serde_json::{json, Map, Value};
use std::collections::{BTreeMap, HashSet};
use std::time::Instant;

pub const MAX_SAMPLES: usize = 4;
pub const MAX_VIOLATIONS_KEPT: usize = 40;

#[derive(Clone, Debug)]
pub struct Violation {
    /// which oracle of the property was refuted (stable identifier)
    pub oracle: String,
    /// stable signature of the failing input / call site, used for known-finding matching
    pub sig: String,
    pub workload: String,
    pub case: u64,
    pub detail: Value,
}

pub struct Ctx {
    pub property: String,
    pub tier: String,
    pub seed: u64,
    pub shard: u64,
    pub nshards: u64,
    pub flavour: String,
    /// scale factor on case counts (slices run under sanitizers use < 1)
    pub scale: f64,
    pub replay: Option<(String, u64)>,
    pub start: Instant,
    pub budget_s: f64,
    pub evaluations: u64,
    pub nontrivial: u64,
    seen: HashSet<u64>,
    pub counters: BTreeMap<String, u64>,
    pub maxima: BTreeMap<String, f64>,
    pub samples: Vec<Value>,
    pub violations: Vec<Violation>,
    pub violation_count: u64,
    pub inconclusive: Vec<Value>,
    pub skipped_budget: u64,
    pub notes: Vec<String>,
    pub current: String,
    /// where the shard report goes; it is also flushed whenever a new kind of violation is
    /// recorded, so that a later stall or crash of the shard does not lose it
    pub out_path: Option<String>,
}

impl Ctx {
    pub fn new(property: &str, tier: &str, seed: u64, shard: u64, nshards: u64) -> Self {
        Ctx {
            property: property.to_string(),
            tier: tier.to_string(),
            seed,
            shard,
            nshards,
            flavour: "mon".into(),
            scale: 1.0,
            replay: None,
            start: Instant::now(),
            budget_s: 1e9,
            evaluations: 0,
            nontrivial: 0,
            seen: HashSet::new(),
            counters: BTreeMap::new(),
            maxima: BTreeMap::new(),
            samples: vec![],
            violations: vec![],
            violation_count: 0,
            inconclusive: vec![],
            skipped_budget: 0,
            notes: vec![],
            current: String::new(),
            out_path: None,
        }
    }
    pub fn thorough(&self) -> bool {
        self.tier == "thorough"
    }
    /// number of cases for a workload: quick/thorough counts scaled by the flavour's factor
    pub fn count(&self, quick: u64, thorough: u64) -> u64 {
        let base = if self.thorough() { thorough } else { quick };
        ((base as f64 * self.scale).ceil() as u64).max(1)
    }
    /// the case indices of `workload` this shard must run (or the single replayed case)
    pub fn cases(&self, workload: &str, total: u64) -> Vec<u64> {
        if let Some((w, c)) = &self.replay {
            if w == workload {
                return vec![*c];
            }
            return vec![];
        }
        (0..total).filter(|i| i % self.nshards == self.shard).collect()
    }
    pub fn is_replay(&self) -> bool {
        self.replay.is_some()
    }
    pub fn out_of_budget(&mut self) -> bool {
        if self.start.elapsed().as_secs_f64() > self.budget_s {
            self.skipped_budget += 1;
            true
        } else {
            false
        }
    }
    /// mark the case about to run (printed so that an abort names the input)
    pub fn begin(&mut self, workload: &str, case: u64) {
        self.current = format!("{workload}#{case}");
        eprintln!("START {} {} case {}", self.property, workload, case);
    }
    pub fn eval(&mut self, n: u64) {
        self.evaluations += n;
    }
    /// count a distinct non-trivial case identified by a content hash
    pub fn nontrivial_hash(&mut self, h: u64) {
        if self.seen.len() < 4_000_000 {
            if self.seen.insert(h) {
                self.nontrivial += 1;
            }
        } else {
            // conservative: beyond the cap we stop counting
        }
    }
    /// count cases that are distinct by construction (exhaustive enumeration)
    pub fn nontrivial_n(&mut self, n: u64) {
        self.nontrivial += n;
    }
    pub fn bump(&mut self, key: &str) {
        *self.counters.entry(key.to_string()).or_insert(0) += 1;
    }
    pub fn bump_n(&mut self, key: &str, n: u64) {
        *self.counters.entry(key.to_string()).or_insert(0) += n;
    }
    pub fn observe_max(&mut self, key: &str, v: f64) {
        if v.is_nan() {
            return;
        }
        let e = self.maxima.entry(key.to_string()).or_insert(f64::NEG_INFINITY);
        if v > *e {
            *e = v;
        }
    }
    pub fn sample(&mut self, v: Value) {
        if self.samples.len() < MAX_SAMPLES {
            self.samples.push(v);
        }
    }
    pub fn note(&mut self, s: &str) {
        if self.notes.len() < 50 && !self.notes.iter().any(|n| n == s) {
            self.notes.push(s.to_string());
        }
    }
    pub fn violation(&mut self, oracle: &str, sig: &str, workload: &str, case: u64, detail: Value) {
        self.violation_count += 1;
        eprintln!("VIOLATION-SHARD {} oracle={} sig={} at {}#{}", self.property, oracle, sig, workload, case);
        let same_sig = self.violations.iter().filter(|v| v.sig == sig).count();
        if self.violations.len() < MAX_VIOLATIONS_KEPT && same_sig < 4 {
            self.violations.push(Violation {
                oracle: oracle.to_string(),
                sig: sig.to_string(),
                workload: workload.to_string(),
                case,
                detail,
            });
            if same_sig == 0 {
                if let Some(p) = &self.out_path {
                    let mut js = self.to_json();
                    js["partial"] = serde_json::json!(true);
                    let _ = std::fs::write(p, serde_json::to_string(&js).unwrap_or_default());
                }
            }
        }
    }
    pub fn inconclusive(&mut self, why: &str, workload: &str, case: u64) {
        self.bump("inconclusive");
        if self.inconclusive.len() < 20 {
            self.inconclusive.push(json!({"why": why, "workload": workload, "case": case}));
        }
    }
    pub fn to_json(&self) -> Value {
        let mut m = Map::new();
        m.insert("property".into(), json!(self.property));
        m.insert("tier".into(), json!(self.tier));
        m.insert("seed".into(), json!(self.seed));
        m.insert("shard".into(), json!(self.shard));
        m.insert("nshards".into(), json!(self.nshards));
        m.insert("flavour".into(), json!(self.flavour));
        m.insert("evaluations".into(), json!(self.evaluations));
        m.insert("nontrivial".into(), json!(self.nontrivial));
        m.insert("counters".into(), json!(self.counters));
        let mx: BTreeMap<String, f64> = self
            .maxima
            .iter()
            .filter(|(_, v)| v.is_finite())
            .map(|(k, v)| (k.clone(), *v))
            .collect();
        m.insert("maxima".into(), json!(mx));
        m.insert("samples".into(), json!(self.samples));
        m.insert("violation_count".into(), json!(self.violation_count));
        m.insert(
            "violations".into(),
            Value::Array(
                self.violations
                    .iter()
                    .map(|v| {
                        json!({"oracle": v.oracle, "sig": v.sig, "workload": v.workload, "case": v.case, "detail": v.detail})
                    })
                    .collect(),
            ),
        );
        m.insert("inconclusive".into(), json!(self.inconclusive));
        m.insert("skipped_budget".into(), json!(self.skipped_budget));
        m.insert("notes".into(), json!(self.notes));
        m.insert("wall_s".into(), json!(self.start.elapsed().as_secs_f64()));
        Value::Object(m)
    }
}

/// FNV-style content hash helpers for "distinct non-trivial" counting
pub fn hash_f64s(h: &mut u64, v: &[f64]) {
    for x in v {
        *h ^= x.to_bits();
        *h = h.wrapping_mul(0x100000001b3).rotate_left(5);
    }
}
pub fn hash_usizes(h: &mut u64, v: &[usize]) {
    for x in v {
        *h ^= *x as u64;
        *h = h.wrapping_mul(0x100000001b3).rotate_left(5);
    }
}
pub fn hash_new() -> u64 {
    0xcbf29ce484222325
}

/// Run `f`, converting a panic into Err(message).  The default panic hook is
/// silenced for the duration (messages are captured instead of printed).
pub fn catch<F: FnOnce() -> R + std::panic::UnwindSafe, R>(f: F) -> Result<R, String> {
    use std::sync::Mutex;
    static LAST: Mutex<Option<String>> = Mutex::new(None);
    static INSTALL: std::sync::Once = std::sync::Once::new();
    thread_local! { static CAPTURE: std::cell::Cell<bool> = const { std::cell::Cell::new(false) }; }
    INSTALL.call_once(|| {
        let prev = std::panic::take_hook();
        std::panic::set_hook(Box::new(move |info| {
            let cap = CAPTURE.with(|c| c.get());
            if cap {
                let msg = if let Some(s) = info.payload().downcast_ref::<&str>() {
                    s.to_string()
                } else if let Some(s) = info.payload().downcast_ref::<String>() {
                    s.clone()
                } else {
                    "non-string panic".to_string()
                };
                let loc = info.location().map(|l| format!("{}:{}", l.file(), l.line())).unwrap_or_default();
                *LAST.lock().unwrap() = Some(format!("{msg} @ {loc}"));
            } else {
                prev(info);
            }
        }));
    });
    CAPTURE.with(|c| c.set(true));
    let r = std::panic::catch_unwind(f);
    CAPTURE.with(|c| c.set(false));
    match r {
        Ok(v) => Ok(v),
        Err(_) => Err(LAST.lock().unwrap().take().unwrap_or_else(|| "panic".into())),
    }
}

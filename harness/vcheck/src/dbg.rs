//! ad-hoc debugging entry: vcheck dbg --replay <workload>:<case> (reuses generators by name)
use vkit::cones::*;
use vkit::problem;
use vkit::{Ctx, Rng};

pub fn run(ctx: &mut Ctx) {
    let (wl, case) = ctx.replay.clone().expect("dbg needs --replay");
    let (p, st) = match wl.as_str() {
        "C06" => {
            let mut rng = Rng::for_case(ctx.seed, "C06/family_G", case);
            (crate::c06::family_g(&mut rng).problem, vkit::gen::default_settings())
        }
        _ => panic!("unknown dbg workload"),
    };
    let (r, ev, cones) = problem::run_traced(&p, &st);
    println!("result: {:?}", r.as_ref().map(|x| problem::status_name(x.status)));
    println!("cones: {}", problem::cones_json(&cones));
    for e in &ev {
        let mut worst = (f64::INFINITY, 0, 'z');
        for (i, (c, rg)) in cones.iter().zip(cone_ranges(&cones)).enumerate() {
            if cone_dim(c) == 0 || matches!(c, ConeT::ZeroConeT(_)) {
                continue;
            }
            let (mz, sz) = margin(c, &e.z[rg.clone()], true);
            let (ms, ss) = margin(c, &e.s[rg.clone()], false);
            if mz / sz < worst.0 {
                worst = (mz / sz, i, 'z');
            }
            if ms / ss < worst.0 {
                worst = (ms / ss, i, 's');
            }
        }
        println!("it {:3} alpha {:.3e} tau {:.3e} kappa {:.3e} mu {:.3e} worst rel margin {:.3e} (cone {} {})", e.iterations, e.step_length, e.τ, e.κ, e.μ, worst.0, worst.1, worst.2);
    }
}

//! C09 — infinite bounds are removed and restored transparently.
use crate::common::*;
use clarabel::solver::SolverStatus;
use serde_json::json;
use vkit::cones::{cone_ranges, ConeT};
use vkit::dense::Dense;
use vkit::gen::{self, GenOpts};
use vkit::kkt;
use vkit::problem::{self, status_name, verdict_class, Problem};
use vkit::{Ctx, Rng};

/// delete the rows in `drop` by hand; cap the remaining b at `bound`
pub fn hand_reduce(p: &Problem, drop: &[bool], bound: f64) -> Problem {
    let a = Dense::from_csc(&p.A);
    let pat = Dense::pattern_of(&p.A);
    let kept: Vec<usize> = (0..p.m()).filter(|&i| !drop[i]).collect();
    let n = p.n();
    let mut a2 = Dense::zeros(kept.len(), n);
    let mut pat2 = vec![false; kept.len() * n];
    for (r, &i) in kept.iter().enumerate() {
        for j in 0..n {
            a2.set(r, j, a.get(i, j));
            pat2[r * n + j] = pat[i * n + j];
        }
    }
    let b2: Vec<f64> = kept.iter().map(|&i| p.b[i].min(bound)).collect();
    // cones: shrink NN (and singleton) cones by their dropped rows, keep everything else, keep empties out
    let mut cones2 = vec![];
    for (c, r) in p.cones.iter().zip(cone_ranges(&p.cones)) {
        let nd = r.clone().filter(|&i| drop[i]).count();
        match c {
            ConeT::NonnegativeConeT(k) => {
                if k - nd > 0 {
                    cones2.push(ConeT::NonnegativeConeT(k - nd));
                }
            }
            _ if kkt::is_singleton_nonneg(c) && nd == 1 => {}
            _ => cones2.push(c.clone()),
        }
    }
    Problem { P: p.P.clone(), q: p.q.clone(), A: a2.to_csc_pattern(&pat2), b: b2, cones: cones2 }
}

fn plant(p: &mut Problem, rng: &mut Rng, bound: f64) -> usize {
    let m = p.m();
    if m == 0 {
        return 0;
    }
    let mode = rng.usize(0, 4);
    let mut cnt = 0;
    // (the mirror images -bound, -1e30 are ordinary, if hopeless, right-hand sides: never dropped)
    let vals = [bound, bound * (1.0 + 1e-12), bound * 2.0, 1e30, f64::MAX, bound * (1.0 - 1e-9), bound * 0.5, -bound, -1e30, -bound * 2.0];
    let ranges = cone_ranges(&p.cones);
    for (c, r) in p.cones.clone().iter().zip(ranges) {
        let is_nn = matches!(c, ConeT::NonnegativeConeT(_));
        let all_of_cone = mode == 1 && rng.bool(0.5);
        for i in r {
            let pick = match mode {
                0 => is_nn && rng.bool(0.3),
                1 => (is_nn && all_of_cone) || rng.bool(0.1),
                2 => rng.bool(0.25), // any cone kind: capped, never dropped, outside NN
                3 => is_nn,          // every NN row of the problem
                _ => is_nn && rng.bool(0.5),
            };
            if pick {
                p.b[i] = *rng.choose(&vals);
                cnt += 1;
            }
        }
    }
    cnt
}

pub fn run(ctx: &mut Ctx) {
    let default_bound = clarabel::INFINITY_DEFAULT;
    clarabel::default_infinity();
    let wl = "placements";
    let total = ctx.count(1600, 16000);
    for case in ctx.cases(wl, total) {
        if ctx.out_of_budget() {
            continue;
        }
        ctx.begin(wl, case);
        let mut rng = Rng::for_case(ctx.seed, "C09/placements", case);
        let mut o = GenOpts { kinds: gen::all_kinds(), ..Default::default() };
        o.nmax = *rng.choose(&[3, 8, 16]);
        o.mmax = *rng.choose(&[8, 20, 40]);
        if rng.bool(0.6) {
            // make sure nonnegative cones are frequent and come in several pieces / orders
            o.kinds = vec!["NN", "NN", "SOC", "Zero", "Exp", "NN", "Pow", "PSD"].into_iter().filter(|k| gen::all_kinds().contains(k)).collect();
        }
        let mut p = gen::planted(&mut rng, &o).problem;
        // custom bound in a third of the cases (module-level state: restored at the end of the case)
        let bound = if rng.bool(0.33) { *rng.choose(&[1e10, 1e15, 5e19]) } else { default_bound };
        clarabel::set_infinity(bound);
        let planted = plant(&mut p, &mut rng, bound);
        let mut st = gen::random_settings(&mut rng, true);
        st.presolve_enable = rng.bool(0.8);
        let res = problem::run(&p, &st);
        // the bound must have been captured at construction: changing it now must not matter
        clarabel::default_infinity();
        let res = match res {
            Ok(r) => r,
            Err(msg) => {
                // well-formed data: removing and restoring rows must not make construction or the solve panic
                let site = msg.rsplit(" @ ").next().unwrap_or("").replace("/repo/", "");
                ctx.violation("panic_with_infinite_bounds", &format!("panic_with_infinite_bounds:{site}"), wl, case, json!({"problem": p.to_json(), "settings": problem::settings_json(&st), "bound": bound, "planted": planted, "panic": msg}));
                continue;
            }
        };
        ctx.eval(1);
        ctx.bump(&format!("status_{}", status_name(res.status)));
        let pm = presolve_model(&p, &st, &res, bound);
        let ndrop = pm.drop.iter().filter(|&&d| d).count();
        let mut fails = pm.fails.clone();
        // rows outside nonnegative cones are never dropped (model says so; check the solver agrees row by row)
        for (c, r) in p.cones.iter().zip(cone_ranges(&p.cones)) {
            let nn = matches!(c, ConeT::NonnegativeConeT(_)) || kkt::is_singleton_nonneg(c);
            if !nn && r.clone().any(|i| pm.drop[i]) {
                fails.push(("non_nn_row_dropped".into(), json!({"cone": problem::cones_json(&[c.clone()])})));
            }
        }
        if !st.presolve_enable && res.data_m != p.m() {
            fails.push(("rows_dropped_with_presolve_off".into(), json!({"data_m": res.data_m, "m": p.m()})));
        }
        if planted > 0 {
            ctx.nontrivial_hash(p.hash() ^ case);
        }
        if ndrop > 0 {
            ctx.bump("cases_with_dropped_rows");
            if ndrop == p.m() {
                ctx.bump("cases_with_every_row_dropped");
            }
        }
        if bound != default_bound {
            ctx.bump("cases_with_custom_bound");
        }
        // kept entries solve the hand-reduced problem
        if res.status == SolverStatus::Solved && fails.is_empty() {
            let ev = eval_with_model(&p, &res, &pm, bound);
            for (o, d) in kkt::judge_solved(&ev, st.tol_feas, st.tol_gap_abs, st.tol_gap_rel, 1.0) {
                fails.push((format!("kept_entries:{o}"), d));
            }
        }
        if fails.is_empty() && st.presolve_enable && ndrop > 0 && ndrop < p.m() {
            let red = hand_reduce(&p, &pm.drop, bound);
            let mut st2 = st.clone();
            st2.presolve_enable = false;
            clarabel::set_infinity(bound);
            let r2 = problem::run(&red, &st2);
            clarabel::default_infinity();
            if let Ok(r2) = r2 {
                ctx.eval(1);
                if verdict_class(r2.status) != verdict_class(res.status) && verdict_class(r2.status) != '-' && verdict_class(res.status) != '-' {
                    fails.push(("hand_reduced:verdict".into(), json!({"presolved": status_name(res.status), "hand_reduced": status_name(r2.status)})));
                } else if res.status == SolverStatus::Solved && r2.status == SolverStatus::Solved {
                    let den = res.obj_val.abs().max(1.0);
                    if !((res.obj_val - r2.obj_val).abs() <= 1e-5 * den) {
                        fails.push(("hand_reduced:objective".into(), json!({"presolved": res.obj_val, "hand_reduced": r2.obj_val})));
                    }
                    let kept: Vec<usize> = (0..p.m()).filter(|&i| pm.keep[i]).collect();
                    let bit = res.x.iter().zip(&r2.x).all(|(a, b)| a.to_bits() == b.to_bits())
                        && kept.iter().enumerate().all(|(r, &i)| res.s[i].to_bits() == r2.s[r].to_bits() && res.z[i].to_bits() == r2.z[r].to_bits());
                    ctx.bump(if bit { "hand_reduced_solution_bitwise_equal" } else { "hand_reduced_solution_differs_in_bits_(observation)" });
                }
            }
        }
        for (oracle, detail) in fails {
            ctx.violation(&oracle, &oracle, wl, case, case_json(&p, &st, &res, json!({"check": detail, "bound": bound, "model_dropped": pm.drop})));
        }
        if case < 3 {
            ctx.sample(json!({"workload": wl, "m": p.m(), "cones": problem::cones_json(&p.cones), "b": p.b.iter().map(|v| problem::fj(*v)).collect::<Vec<_>>(), "bound": bound, "presolve": st.presolve_enable, "dropped_rows": ndrop, "status": status_name(res.status)}));
        }
    }

    // histories of set_infinity / default_infinity: each solver uses the value in force at ITS construction
    let wl2 = "bound_histories";
    let total = ctx.count(300, 3000);
    for case in ctx.cases(wl2, total) {
        if ctx.out_of_budget() {
            continue;
        }
        ctx.begin(wl2, case);
        let mut rng = Rng::for_case(ctx.seed, "C09/bound_histories", case);
        let mut o = GenOpts { kinds: vec!["NN", "SOC", "NN", "Zero"], ..Default::default() };
        o.nmax = 6;
        o.mmax = 16;
        o.allow_empty_cones = false;
        let base = gen::planted(&mut rng, &o).problem;
        let bounds = [1e6, 1e9, 1e12, default_bound];
        let nsolvers = rng.usize(2, 4);
        let mut st = gen::default_settings();
        st.presolve_enable = true;
        let mut built = vec![];
        let mut threaded: Vec<(Problem, f64, std::sync::mpsc::Sender<()>, std::thread::JoinHandle<Option<problem::SolveResult>>)> = vec![];
        for _ in 0..nsolvers {
            let bnd = *rng.choose(&bounds);
            if bnd == default_bound && rng.bool(0.5) {
                clarabel::default_infinity();
            } else {
                clarabel::set_infinity(bnd);
            }
            let mut p = base.clone();
            // entries at several of the candidate bounds: which rows get dropped depends on the bound in force
            for (c, r) in p.cones.clone().iter().zip(cone_ranges(&p.cones)) {
                if let ConeT::NonnegativeConeT(_) = c {
                    for i in r {
                        if rng.bool(0.5) {
                            p.b[i] = *rng.choose(&[1e6, 1e9, 1e12, 1e20, 1e25]);
                        }
                    }
                }
            }
            // the bound is a property of the process, not of the thread that set it: a third of the solvers are
            // built (and later solved) on ANOTHER thread than the one that called set_infinity
            if rng.bool(0.33) {
                let (go_tx, go_rx) = std::sync::mpsc::channel::<()>();
                let (seen_tx, seen_rx) = std::sync::mpsc::channel::<f64>();
                let (p2, st2) = (p.clone(), st.clone());
                let handle = std::thread::spawn(move || {
                    let seen = clarabel::get_infinity();
                    let solver = problem::new_solver(&p2, &st2);
                    let _ = seen_tx.send(seen);
                    let _ = go_rx.recv();
                    match solver {
                        Ok(mut sv) => problem::solve_observed(&mut sv).ok().map(|ev| problem::extract(&sv, ev)),
                        Err(_) => None,
                    }
                });
                let seen = seen_rx.recv().unwrap_or(f64::NAN);
                ctx.eval(1);
                ctx.bump("solvers_built_on_another_thread");
                if seen.to_bits() != bnd.to_bits() {
                    ctx.violation("history:bound_not_seen_by_other_thread", "history:bound_not_seen_by_other_thread", wl2, case, json!({"set_on_main_thread": bnd, "get_infinity_on_spawned_thread": problem::fj(seen)}));
                }
                threaded.push((p, bnd, go_tx, handle));
                continue;
            }
            if let Ok(s) = problem::new_solver(&p, &st) {
                built.push((p, bnd, s));
            }
        }
        // scramble the module-level value before solving
        clarabel::set_infinity(*rng.choose(&[1e3, 1e30]));
        let mut results: Vec<(Problem, f64, problem::SolveResult)> = vec![];
        for (p, bnd, go_tx, handle) in threaded {
            let _ = go_tx.send(());
            if let Ok(Some(res)) = handle.join() {
                results.push((p, bnd, res));
            }
        }
        for (p, bnd, mut solver) in built {
            let ev = match problem::solve_observed(&mut solver) {
                Ok(e) => e,
                Err(_) => continue,
            };
            results.push((p, bnd, problem::extract(&solver, ev)));
        }
        for (p, bnd, res) in results {
            ctx.eval(1);
            let pm = presolve_model(&p, &st, &res, bnd);
            let mut fails = pm.fails.clone();
            if res.status == SolverStatus::Solved && fails.is_empty() {
                let e = eval_with_model(&p, &res, &pm, bnd);
                for (o, d) in kkt::judge_solved(&e, st.tol_feas, st.tol_gap_abs, st.tol_gap_rel, 1.0) {
                    fails.push((format!("kept_entries:{o}"), d));
                }
            }
            if pm.drop.iter().any(|&d| d) {
                ctx.bump("history_solvers_with_dropped_rows");
            }
            ctx.nontrivial_hash(p.hash() ^ case ^ bnd.to_bits());
            for (oracle, detail) in fails {
                ctx.violation(&format!("history:{oracle}"), &format!("history:{oracle}"), wl2, case, case_json(&p, &st, &res, json!({"check": detail, "bound_at_construction": bnd})));
            }
        }
        clarabel::default_infinity();
    }
}

//! C19 — saving a problem to JSON and loading it back reproduces the same problem; malformed
//! files produce an error, not a panic.
use crate::common::*;
use clarabel::solver::{DefaultSettings, DefaultSolver, SolverJSONReadWrite, SolverStatus};
use serde_json::{json, Value};
use std::io::{Read, Seek, SeekFrom, Write};
use vkit::gen::{self, GenOpts};
use vkit::kkt;
use vkit::problem::{self, status_name, verdict_class, Problem};
use vkit::report::catch;
use vkit::{Ctx, Rng};

fn rel_ulps(got: f64, want: f64) -> f64 {
    if got == want {
        return 0.0;
    }
    (got - want).abs() / (f64::EPSILON * want.abs().max(got.abs()).max(f64::MIN_POSITIVE))
}

fn tmpfile(tag: &str) -> std::fs::File {
    let dir = std::env::temp_dir();
    let path = dir.join(format!("vcheck-{}-{}-{}.json", std::process::id(), tag, std::time::SystemTime::now().duration_since(std::time::UNIX_EPOCH).map(|d| d.as_nanos()).unwrap_or(0)));
    let f = std::fs::OpenOptions::new().read(true).write(true).create(true).truncate(true).open(&path).expect("tmp file");
    let _ = std::fs::remove_file(&path); // unlinked: vanishes when closed
    f
}

fn save_bytes(solver: &DefaultSolver<f64>) -> Result<Vec<u8>, String> {
    let mut f = tmpfile("save");
    catch(std::panic::AssertUnwindSafe(|| solver.save_to_file(&mut f))).map_err(|e| format!("PANIC {e}"))?.map_err(|e| format!("{e}"))?;
    f.seek(SeekFrom::Start(0)).map_err(|e| e.to_string())?;
    let mut v = vec![];
    f.read_to_end(&mut v).map_err(|e| e.to_string())?;
    Ok(v)
}

fn load_bytes(bytes: &[u8], st: Option<DefaultSettings<f64>>) -> Result<Result<DefaultSolver<f64>, String>, String> {
    let mut f = tmpfile("load");
    f.write_all(bytes).map_err(|e| e.to_string())?;
    f.seek(SeekFrom::Start(0)).map_err(|e| e.to_string())?;
    // outer Err = panic ; inner Err = the documented error return
    catch(std::panic::AssertUnwindSafe(|| DefaultSolver::<f64>::load_from_file(&mut f, st))).map(|r| r.map_err(|e| format!("{e}")))
}

fn perturbed_settings(rng: &mut Rng) -> DefaultSettings<f64> {
    let mut s = gen::random_settings(rng, true);
    // perturb every field so that a skipped field shows up
    s.max_iter = rng.usize(5, 300) as u32;
    s.time_limit = *rng.choose(&[f64::INFINITY, 1e3, 12.5]);
    s.verbose = false;
    s.max_step_fraction = rng.range(0.9, 0.999);
    s.tol_gap_abs = rng.logpos(-9.0, -6.0);
    s.tol_gap_rel = rng.logpos(-9.0, -6.0);
    s.tol_feas = rng.logpos(-9.0, -6.0);
    s.tol_infeas_abs = rng.logpos(-9.0, -6.0);
    s.tol_infeas_rel = rng.logpos(-9.0, -6.0);
    s.tol_ktratio = rng.logpos(-7.0, -5.0);
    s.reduced_tol_gap_abs = rng.logpos(-5.0, -4.0);
    s.reduced_tol_gap_rel = rng.logpos(-5.0, -4.0);
    s.reduced_tol_feas = rng.logpos(-5.0, -3.0);
    s.reduced_tol_infeas_abs = rng.logpos(-12.0, -11.0);
    s.reduced_tol_infeas_rel = rng.logpos(-5.0, -4.0);
    s.reduced_tol_ktratio = rng.logpos(-5.0, -3.0);
    s.linesearch_backtrack_step = rng.range(0.5, 0.9);
    s.min_switch_step_length = rng.range(0.05, 0.2);
    s.min_terminate_step_length = rng.logpos(-5.0, -3.0);
    s.static_regularization_constant = rng.logpos(-9.0, -7.0);
    s.static_regularization_proportional = rng.logpos(-33.0, -30.0);
    s.dynamic_regularization_eps = rng.logpos(-14.0, -12.0);
    s.dynamic_regularization_delta = rng.logpos(-8.0, -6.0);
    s.iterative_refinement_reltol = rng.logpos(-14.0, -12.0);
    s.iterative_refinement_abstol = rng.logpos(-13.0, -11.0);
    s.iterative_refinement_max_iter = rng.usize(1, 20) as u32;
    s.iterative_refinement_stop_ratio = rng.range(2.0, 8.0);
    s.direct_kkt_solver = true;
    #[cfg(feature = "sdp")]
    {
        s.chordal_decomposition_enable = false;
        s.chordal_decomposition_compact = rng.bool(0.5);
        s.chordal_decomposition_complete_dual = rng.bool(0.5);
        s.chordal_decomposition_merge_method = rng.choose(&["none", "parent_child", "clique_graph"]).to_string();
    }
    s
}

/// field-by-field comparison through serde (time_limit = inf serialises to null, so it is compared separately)
fn settings_diff(a: &DefaultSettings<f64>, b: &DefaultSettings<f64>) -> Option<Value> {
    let (va, vb) = (serde_json::to_value(a).ok()?, serde_json::to_value(b).ok()?);
    let (ma, mb) = (va.as_object()?, vb.as_object()?);
    for (k, x) in ma {
        if k == "time_limit" {
            if a.time_limit.to_bits() != b.time_limit.to_bits() {
                return Some(json!({"field": k, "a": problem::fj(a.time_limit), "b": problem::fj(b.time_limit)}));
            }
            continue;
        }
        if mb.get(k) != Some(x) {
            return Some(json!({"field": k, "a": x, "b": mb.get(k)}));
        }
    }
    if ma.len() != mb.len() {
        return Some(json!({"field_count": [ma.len(), mb.len()]}));
    }
    // the serde view hides a field that is skipped by the serialiser on BOTH sides; the derived Debug view does not
    let (da, db) = (format!("{:?}", a), format!("{:?}", b));
    if da != db {
        let (fa, fb): (Vec<&str>, Vec<&str>) = (da.split(", ").collect(), db.split(", ").collect());
        let k = fa.iter().zip(&fb).position(|(x, y)| x != y).unwrap_or(0);
        return Some(json!({"field_in_debug_view": fa.get(k), "b": fb.get(k)}));
    }
    None
}

fn small_problem(rng: &mut Rng, tiny: bool) -> Problem {
    let mut o = GenOpts { kinds: gen::all_kinds(), ..Default::default() };
    o.nmax = if tiny { 2 } else { *rng.choose(&[2, 5, 10]) };
    o.mmax = if tiny { 6 } else { *rng.choose(&[6, 15, 30]) };
    o.psd_max = if tiny { 2 } else { 4 };
    let mut p = gen::planted(rng, &o).problem;
    // extreme finite values in a few entries
    if rng.bool(0.2) && !p.q.is_empty() {
        let j = rng.usize(0, p.q.len() - 1);
        p.q[j] *= *rng.choose(&[1e-200, 1e150, 1e-300]);
    }
    if rng.bool(0.1) {
        p.P = clarabel::algebra::CscMatrix::zeros((p.n(), p.n()));
    }
    // ... and in b: hugely negative finite right-hand sides (below minus the infinity bound) are ordinary data
    if rng.bool(0.15) && !p.b.is_empty() {
        let i = rng.usize(0, p.b.len() - 1);
        p.b[i] = *rng.choose(&[-1e21, -4e25, -1e300, -1.0000001e20]);
    }
    // explicitly stored zeros (placeholders for entries to be filled in later by update_A / update_P): part of the
    // problem's sparsity pattern, which a saved file has to reproduce
    if rng.bool(0.3) {
        for vals in [&mut p.A.nzval, &mut p.P.nzval] {
            if !vals.is_empty() {
                for _ in 0..rng.usize(1, 3) {
                    let k = rng.usize(0, vals.len() - 1);
                    vals[k] = 0.0;
                }
            }
        }
    }
    p
}

fn w_roundtrip(ctx: &mut Ctx) {
    let wl = "roundtrip";
    let bound = clarabel::get_infinity();
    let total = if ctx.flavour == "miri" { ctx.count(3, 8) } else { ctx.count(400, 6000) };
    for case in ctx.cases(wl, total) {
        if ctx.out_of_budget() {
            continue;
        }
        ctx.begin(wl, case);
        let mut rng = Rng::for_case(ctx.seed, "C19/roundtrip", case);
        let mut p = small_problem(&mut rng, ctx.flavour == "miri");
        let st = perturbed_settings(&mut rng);
        let with_reduction = rng.bool(0.15) && st.presolve_enable;
        if with_reduction {
            let mut pl = gen::Planted { problem: p.clone(), x0: vec![], s0: vec![], z0: vec![0.0; p.m()], p0: 0.0, d0: 0.0, well_posed: true, cond_note: String::new() };
            pl.x0 = vec![0.0; p.n()];
            let _ = &mut pl;
            use vkit::cones::{cone_ranges, ConeT};
            for (c, r) in p.cones.clone().iter().zip(cone_ranges(&p.cones)) {
                if let ConeT::NonnegativeConeT(_) = c {
                    for i in r {
                        if rng.bool(0.4) {
                            p.b[i] = 1e25;
                        }
                    }
                }
            }
        }
        let mut solver = match problem::new_solver(&p, &st) {
            Ok(s) => s,
            Err(_) => continue,
        };
        // multi-step: the public settings field may be edited after construction; the saved DATA must not depend on it
        let edited_after = rng.bool(0.2);
        if edited_after {
            solver.settings.equilibrate_enable = !solver.settings.equilibrate_enable;
            solver.settings.max_iter += 1;
        }
        let st_expected = solver.settings.clone();
        let bytes = match save_bytes(&solver) {
            Ok(b) => b,
            Err(e) => {
                ctx.violation("save_failed", "save_failed", wl, case, json!({"problem": p.to_json(), "error": e}));
                continue;
            }
        };
        ctx.eval(1);
        ctx.nontrivial_hash(p.hash() ^ case);
        let reduced = solver.data.m != p.m();
        let mut fail: Option<(String, Value)> = None;
        let mut bad = |o: &str, d: Value| {
            if fail.is_none() {
                fail = Some((o.to_string(), d));
            }
        };
        // (1) the file, parsed by the harness
        match serde_json::from_slice::<Value>(&bytes) {
            Err(e) => bad("file_not_json", json!({"error": e.to_string()})),
            Ok(v) => {
                let arr = |x: &Value| -> Vec<f64> { x.as_array().map(|a| a.iter().map(|t| t.as_f64().unwrap_or(f64::NAN)).collect()).unwrap_or_default() };
                let idx = |x: &Value| -> Vec<usize> { x.as_array().map(|a| a.iter().map(|t| t.as_u64().unwrap_or(u64::MAX) as usize).collect()).unwrap_or_default() };
                if !reduced {
                    let ulps = if st.equilibrate_enable { 96.0 } else { 0.0 };
                    let pt = p.P.to_triu();
                    let bm: Vec<f64> = p.b.iter().map(|v| v.min(bound)).collect();
                    let checks: [(&str, Vec<f64>, Vec<f64>); 4] =
                        [("P", arr(&v["P"]["nzval"]), pt.nzval.clone()), ("q", arr(&v["q"]), p.q.clone()), ("A", arr(&v["A"]["nzval"]), p.A.nzval.clone()), ("b", arr(&v["b"]), bm)];
                    for (name, got, want) in checks.iter() {
                        if got.len() != want.len() {
                            bad("saved_data_length", json!({"which": name, "got": got.len(), "want": want.len()}));
                            continue;
                        }
                        for k in 0..got.len() {
                            let u = rel_ulps(got[k], want[k]);
                            ctx.observe_max("saved_value_error_ulps", u);
                            if u > ulps {
                                bad("saved_data_value", json!({"which": name, "k": k, "got": got[k], "want": want[k], "ulps": u, "equilibrate": st.equilibrate_enable, "settings_edited_after_construction": edited_after}));
                                break;
                            }
                        }
                    }
                    if idx(&v["P"]["colptr"]) != pt.colptr || idx(&v["P"]["rowval"]) != pt.rowval || idx(&v["A"]["colptr"]) != p.A.colptr || idx(&v["A"]["rowval"]) != p.A.rowval {
                        bad("saved_pattern", json!({}));
                    }
                    // cones = the user's list after the harness's own consolidation
                    let want_cones = kkt::effective_cones(&p.cones, &vec![false; p.m()]);
                    let got_cones: Result<Vec<vkit::cones::ConeT>, _> = serde_json::from_str(&v["cones"].to_string());
                    match got_cones {
                        Ok(gc) => {
                            if gc != want_cones {
                                bad("saved_cones", json!({"got": problem::cones_json(&gc), "want": problem::cones_json(&want_cones)}));
                            }
                        }
                        Err(e) => bad("saved_cones_unreadable", json!({"error": e.to_string()})),
                    }
                    ctx.bump("roundtrips_without_reduction");
                } else {
                    ctx.bump("roundtrips_with_presolve_reduction");
                }
            }
        }
        // (2) load back: settings identical, solves agree
        match load_bytes(&bytes, None) {
            Err(panic) => bad("load_panicked_on_valid_file", json!({"panic": panic})),
            Ok(Err(e)) => bad("load_failed_on_valid_file", json!({"error": e})),
            Ok(Ok(mut loaded)) => {
                if let Some(d) = settings_diff(&st_expected, &loaded.settings) {
                    bad("settings_not_reproduced", d);
                }
                let r1 = problem::solve_observed(&mut solver).map(|e| problem::extract(&solver, e));
                let r2 = problem::solve_observed(&mut loaded).map(|e| problem::extract(&loaded, e));
                if let (Ok(r1), Ok(r2)) = (r1, r2) {
                    ctx.eval(1);
                    let (v1, v2) = (verdict_class(r1.status), verdict_class(r2.status));
                    // data with entries beyond 1e15 (the extreme finite values planted above) are kept for the
                    // round-trip comparison of the DATA; what a solve makes of them is numerically arbitrary and
                    // flips with the last-bit differences of a scale/unscale round trip
                    let extreme = p.b.iter().chain(&p.q).any(|v| v.abs() > 1e15 && v.abs() < 1e19);
                    let extreme = extreme || p.b.iter().any(|v| *v < -1e15) || p.q.iter().any(|v| v.abs() > 1e15);
                    if extreme {
                        ctx.bump("loaded_vs_original_solves_not_compared_(extreme_data)");
                    }
                    if !edited_after && !extreme {
                        if v1 != '-' && v2 != '-' && v1 != v2 {
                            // The scale/unscale round trip may move every datum by an ulp or two (the property allows
                            // exactly that); on a problem that is ill-posed - a point passing the documented optimality
                            // test AND a certificate passing the documented infeasibility test both exist, or it is
                            // infeasible both ways - that is enough to tip the verdict, and neither run is wrong.  Such a
                            // pair is counted, not judged (the rule C05, C08 and C18 use for verdict pairs), but only when
                            // (a) the file's data really differ from the user's in some bit and (b) BOTH outcomes pass
                            // their own documented tests on the user's problem; with bit-identical data the two solves
                            // are the same deterministic computation and any difference is a violation.
                            let file_differs = match serde_json::from_slice::<Value>(&bytes) {
                                Ok(v) => {
                                    let arr = |x: &Value| -> Vec<f64> { x.as_array().map(|a| a.iter().map(|t| t.as_f64().unwrap_or(f64::NAN)).collect()).unwrap_or_default() };
                                    let pt = p.P.to_triu();
                                    !reduced
                                        && (arr(&v["P"]["nzval"]).iter().zip(&pt.nzval).any(|(a, b)| a.to_bits() != b.to_bits())
                                            || arr(&v["q"]).iter().zip(&p.q).any(|(a, b)| a.to_bits() != b.to_bits())
                                            || arr(&v["A"]["nzval"]).iter().zip(&p.A.nzval).any(|(a, b)| a.to_bits() != b.to_bits())
                                            || arr(&v["b"]).iter().zip(&p.b).any(|(a, b)| a.to_bits() != b.to_bits()))
                                }
                                Err(_) => false,
                            };
                            let passes_own_test = |r: &problem::SolveResult| -> bool {
                                let pm = presolve_model(&p, &st, r, bound);
                                if !pm.fails.is_empty() {
                                    return false;
                                }
                                let ev = eval_with_model(&p, r, &pm, bound);
                                match r.status {
                                    SolverStatus::Solved => kkt::judge_solved(&ev, st.tol_feas, st.tol_gap_abs, st.tol_gap_rel, 1.0).is_empty(),
                                    SolverStatus::AlmostSolved => kkt::judge_solved(&ev, st.reduced_tol_feas, st.reduced_tol_gap_abs, st.reduced_tol_gap_rel, 1.0).is_empty(),
                                    s if problem::is_infeasible_status(s) => match r.final_event() {
                                        Some(fe) => {
                                            let almost = matches!(s, SolverStatus::AlmostPrimalInfeasible | SolverStatus::AlmostDualInfeasible);
                                            let is_p = matches!(s, SolverStatus::PrimalInfeasible | SolverStatus::AlmostPrimalInfeasible);
                                            let (ta, tr) = if almost { (st.reduced_tol_infeas_abs, st.reduced_tol_infeas_rel) } else { (st.tol_infeas_abs, st.tol_infeas_rel) };
                                            judge_certificate(&ev, is_p, fe.κ, r.c, ta, tr).is_empty()
                                        }
                                        None => false,
                                    },
                                    _ => false,
                                }
                            };
                            let ill_posed = st.equilibrate_enable && file_differs && passes_own_test(&r1) && passes_own_test(&r2);
                            if ill_posed {
                                ctx.bump("loaded_vs_original_verdict_pair_on_ill_posed_problem_(both_pass_documented_tests,_file_differs_in_last_bits)");
                            } else {
                                bad("loaded_solve_verdict", json!({"original": status_name(r1.status), "loaded": status_name(r2.status), "file_data_differ_in_some_bit": file_differs,
                                                "original_result": r1.summary_json(), "loaded_result": r2.summary_json()}));
                            }
                        } else if r1.status == SolverStatus::Solved && r2.status == SolverStatus::Solved {
                            let den = r1.obj_val.abs().max(1.0);
                            // two points that both pass the documented test may differ in objective by their gaps plus
                            // |r_p'z| + |r_d'x| (weak duality with residuals); the documented residual test bounds r_p
                            // only by tol_feas*max(1,|b|+|x|+|s|) and r_d by tol_feas*max(1,|q|+|x|+|z|), which is a lot
                            // when the solution itself is huge (same slack as in C08)
                            let ninf = |v: &[f64]| v.iter().fold(0.0f64, |m, x| m.max(x.abs()));
                            let n1 = |v: &[f64]| v.iter().map(|x| x.abs()).sum::<f64>();
                            let mut feas_slack = 0.0;
                            for r in [&r1, &r2] {
                                let bn = ninf(&p.b.iter().map(|v| v.min(bound)).collect::<Vec<_>>());
                                feas_slack += st.tol_feas * ((1.0f64).max(bn + ninf(&r.x) + ninf(&r.s)) * n1(&r.z) + (1.0f64).max(ninf(&p.q) + ninf(&r.x) + ninf(&r.z)) * n1(&r.x));
                            }
                            let tol = 20.0 * (st.tol_gap_abs + st.tol_gap_rel * den) + 1e-6 * den + 4.0 * feas_slack;
                            if !((r1.obj_val - r2.obj_val).abs() <= tol) {
                                bad("loaded_solve_objective", json!({"original": r1.obj_val, "loaded": r2.obj_val, "tol": tol}));
                            }
                            ctx.bump("loaded_and_original_both_solved");
                        }
                    }
                }
            }
        }
        // (3) a settings argument at load time overrides the stored one
        let mut st2 = perturbed_settings(&mut rng);
        // one argument in six carries the largest finite time limit - the very value an infinite limit is stored as in
        // a file: an argument is used as given, only STORED settings are translated back (side stream of draws)
        {
            let mut r2 = Rng::for_case(ctx.seed, "C19/override_time_limit_max", case);
            if r2.bool(0.17) {
                st2.time_limit = f64::MAX;
                ctx.bump("settings_arguments_with_time_limit_f64_max");
            }
        }
        match load_bytes(&bytes, Some(st2.clone())) {
            Ok(Ok(l2)) => {
                if let Some(d) = settings_diff(&st2, &l2.settings) {
                    bad("settings_argument_not_used", d);
                }
                // ... and it must be what the solver was BUILT with: the settings consumed by the constructor
                // (presolve, equilibration, backend) have to show in the loaded solver's internal data exactly as in
                // a solver built from the user's problem with that settings argument
                if !reduced {
                    if let Ok(reference) = problem::new_solver(&p, &st2) {
                        let (a, b) = (&l2.data, &reference.data);
                        let close = |u: &[f64], v: &[f64]| u.len() == v.len() && u.iter().zip(v).all(|(x, y)| (x - y).abs() <= 1e-8 * x.abs().max(y.abs()));
                        if a.m != b.m || a.n != b.n {
                            bad("settings_argument_not_used_at_construction", json!({"what": "internal dimensions", "loaded": [a.n, a.m], "reference": [b.n, b.m]}));
                        } else if !close(&a.equilibration.d, &b.equilibration.d) || !close(&a.equilibration.e, &b.equilibration.e) || !close(&[a.equilibration.c], &[b.equilibration.c]) {
                            bad("settings_argument_not_used_at_construction", json!({"what": "equilibration", "loaded_c": a.equilibration.c, "reference_c": b.equilibration.c, "loaded_d": a.equilibration.d, "reference_d": b.equilibration.d}));
                        }
                        ctx.bump("load_time_settings_compared_with_a_reference_construction");
                    }
                }
            }
            Ok(Err(e)) => bad("load_failed_on_valid_file", json!({"error": e, "with_settings_argument": true})),
            Err(panic) => bad("load_panicked_on_valid_file", json!({"panic": panic, "with_settings_argument": true})),
        }
        // (4) "overrides" means the stored settings play no part when an argument is given, and the argument is
        // what gets validated: (a) a file whose STORED settings this build cannot use loads fine with a usable
        // argument; (b) a sound file with an unusable argument is an error, not a panic
        if case % 3 == 0 {
            if let Ok(mut v) = serde_json::from_slice::<Value>(&bytes) {
                match case % 2 {
                    0 => v["settings"]["direct_solve_method"] = json!("no-such-backend"),
                    _ => v["settings"]["direct_kkt_solver"] = json!(false),
                }
                let edited = serde_json::to_vec(&v).unwrap_or_default();
                ctx.eval(1);
                match load_bytes(&edited, Some(st2.clone())) {
                    Ok(Ok(l)) => {
                        if let Some(d) = settings_diff(&st2, &l.settings) {
                            bad("settings_argument_not_used", json!({"diff": d, "stored_settings_unusable": true}));
                        }
                    }
                    Ok(Err(e)) => bad("settings_argument_does_not_override_unusable_stored_settings", json!({"error": e, "stored": v["settings"]["direct_solve_method"], "stored_direct_kkt_solver": v["settings"]["direct_kkt_solver"]})),
                    Err(panic) => bad("load_panicked_on_valid_file", json!({"panic": panic, "stored_settings_unusable": true})),
                }
                // without the argument the same file must be refused
                match load_bytes(&edited, None) {
                    Ok(Ok(_)) => bad("unusable_stored_settings_accepted", json!({"stored": v["settings"]["direct_solve_method"], "stored_direct_kkt_solver": v["settings"]["direct_kkt_solver"]})),
                    Ok(Err(_)) => {}
                    Err(panic) => bad("load_panicked_on_unusable_stored_settings", json!({"panic": panic})),
                }
            }
            let mut st_bad = st2.clone();
            st_bad.direct_solve_method = "no-such-backend".to_string();
            ctx.eval(1);
            match load_bytes(&bytes, Some(st_bad)) {
                Ok(Ok(_)) => bad("unusable_settings_argument_accepted", json!({})),
                Ok(Err(_)) => {}
                Err(panic) => bad("load_panicked_on_unusable_settings_argument", json!({"panic": panic})),
            }
            ctx.bump("override_with_exactly_one_unusable_settings_object");
        }
        if let Some((o, d)) = fail {
            ctx.violation(&o, &o, wl, case, json!({"problem": p.to_json(), "settings": problem::settings_json(&st), "check": d, "file": String::from_utf8_lossy(&bytes)}));
        }
        if case < 1 {
            ctx.sample(json!({"workload": wl, "n": p.n(), "m": p.m(), "cones": problem::cones_json(&p.cones), "file_bytes": bytes.len(), "reduced": reduced}));
        }
    }
}

/// fault sequence: truncations and single-site edits of valid files
fn w_faults(ctx: &mut Ctx) {
    let wl = "faults";
    let nfiles = if ctx.flavour == "miri" { 1 } else { ctx.count(6, 40) };
    let alphabet: &[u8] = b"09-.,:[]{}\"e";
    // one case = (file index, block of offsets); blocks keep shards balanced
    let block = 64usize;
    // first pass: build the files (deterministic from the seed) to know their lengths
    let mut files: Vec<Vec<u8>> = vec![];
    for fi in 0..nfiles {
        let mut rng = Rng::for_case(ctx.seed, "C19/fault_files", fi);
        let p = small_problem(&mut rng, true);
        let mut st = gen::default_settings();
        st.equilibrate_enable = rng.bool(0.5);
        st.direct_solve_method = rng.choose(&["qdldl", "auto"]).to_string();
        match problem::new_solver(&p, &st).ok().and_then(|s| save_bytes(&s).ok()) {
            Some(b) => files.push(b),
            None => files.push(vec![]),
        }
    }
    let mut units: Vec<(usize, usize)> = vec![];
    for (fi, f) in files.iter().enumerate() {
        let mut off = 0;
        while off < f.len() {
            units.push((fi, off));
            off += block;
        }
    }
    let stride = if ctx.flavour == "miri" { 37 } else { 1 };
    // the settings each valid file carries, as the loader returns them
    let mut orig_settings: std::collections::HashMap<usize, serde_json::Value> = Default::default();
    for (fi, bytes) in files.iter().enumerate() {
        if let Ok(Ok(solver)) = load_bytes(bytes, None) {
            orig_settings.insert(fi, problem::settings_json(&solver.settings));
        }
    }
    for case in ctx.cases(wl, units.len() as u64) {
        if ctx.out_of_budget() {
            continue;
        }
        let (fi, off0) = units[case as usize];
        let bytes = &files[fi];
        ctx.begin(wl, case);
        let mut rng = Rng::for_case(ctx.seed, "C19/faults", case);
        let mut offs: Vec<usize> = (off0..(off0 + block).min(bytes.len())).collect();
        if stride > 1 {
            offs.retain(|o| o % stride == 0);
        }
        for off in offs {
            let mut edits: Vec<(String, Vec<u8>)> = vec![];
            edits.push(("truncate".into(), bytes[..off].to_vec()));
            let mut del = bytes.clone();
            del.remove(off);
            edits.push(("delete".into(), del));
            let mut dup = bytes.clone();
            dup.insert(off, bytes[off]);
            edits.push(("duplicate".into(), dup));
            for &c in alphabet.iter().chain(std::iter::once(&(rng.usize(0, 255) as u8))) {
                if c == bytes[off] {
                    continue;
                }
                let mut rep = bytes.clone();
                rep[off] = c;
                edits.push((format!("replace:{}", c as char), rep));
            }
            // token-level corruptions at this site: a literal or a number replaced as a whole
            let at_token_start = off == 0 || !(bytes[off - 1].is_ascii_alphanumeric() || matches!(bytes[off - 1], b'.' | b'-' | b'+' | b'"'));
            if at_token_start {
                let rest = &bytes[off..];
                let mut tok_len = 0;
                let mut repls: Vec<&str> = vec![];
                for (lit, with) in [("true", &["false", "null", "0"][..]), ("false", &["true", "null", "1"][..]), ("null", &["0", "true", "[]"][..])] {
                    if rest.starts_with(lit.as_bytes()) {
                        tok_len = lit.len();
                        repls = with.to_vec();
                    }
                }
                if tok_len == 0 && (rest[0].is_ascii_digit() || rest[0] == b'-') {
                    tok_len = rest.iter().take_while(|c| c.is_ascii_digit() || matches!(**c, b'.' | b'-' | b'+' | b'e' | b'E')).count();
                    repls = vec!["0", "-1", "1e308", "18446744073709551615", "null", "0.5", "[]", "\"x\""];
                }
                for r in repls {
                    let mut d = bytes[..off].to_vec();
                    d.extend_from_slice(r.as_bytes());
                    d.extend_from_slice(&bytes[off + tok_len..]);
                    edits.push((format!("token:{r}"), d));
                }
                if tok_len > 0 {
                    ctx.bump("fault_token_sites");
                }
            }
            for (kind, data) in edits {
                ctx.eval(1);
                match load_bytes(&data, None) {
                    Err(panic) => {
                        // key the finding on the panic site, not on the byte offset
                        let site = panic.rsplit(" @ ").next().unwrap_or("").replace("/repo/", "");
                        let msg = panic.split(" @ ").next().unwrap_or("").chars().take(60).collect::<String>();
                        ctx.violation("corrupted_file_panics", &format!("corrupted_file_panics:{site}"), wl, case, json!({"file_index": fi, "offset": off, "edit": kind, "panic": panic, "message": msg,
                            "context": String::from_utf8_lossy(&bytes[off.saturating_sub(30)..(off + 30).min(bytes.len())]), "corrupted_file": String::from_utf8_lossy(&data)}));
                        ctx.bump("fault_outcome_panic");
                    }
                    Ok(Err(_)) => ctx.bump("fault_outcome_err"),
                    Ok(Ok(mut solver)) => {
                        ctx.bump("fault_outcome_ok");
                        // whatever is accepted must at least be ONE well-formed JSON document from the first byte
                        // to the last (an independent strict parse by the harness): a loader that stops reading
                        // at the first complete value takes "{...}garbage" for a valid file
                        if serde_json::from_slice::<serde_json::Value>(&data).is_err() {
                            ctx.violation("accepted_file_that_is_not_valid_json", "accepted_file_that_is_not_valid_json", wl, case, json!({"file_index": fi, "offset": off, "edit": kind, "corrupted_file": String::from_utf8_lossy(&data)}));
                        }
                        // an accepted file must give a well-formed solver: a short solve must not panic either
                        // (only when the corruption left the stored settings alone: a corrupted but still numeric
                        // setting - a backtracking factor of -1 or 1e308, say - is a valid file with settings outside
                        // their documented ranges, and what a solve does with those is not this property's subject;
                        // seen: an endless backtracking loop with linesearch_backtrack_step >= 1)
                        let settings_intact = orig_settings.get(&fi).map_or(false, |o| *o == problem::settings_json(&solver.settings));
                        if !settings_intact {
                            ctx.bump("fault_outcome_ok_with_changed_settings_(no_solve_probe)");
                        }
                        if settings_intact && rng.bool(0.02) {
                            solver.settings.max_iter = 3;
                            solver.settings.verbose = false;
                            if let Err(panic) = problem::solve_observed(&mut solver) {
                                let site = panic.rsplit(" @ ").next().unwrap_or("").replace("/repo/", "");
                                ctx.violation("accepted_corrupted_file_then_solve_panics", &format!("accepted_corrupted_file_then_solve_panics:{site}"), wl, case, json!({"file_index": fi, "offset": off, "edit": kind, "panic": panic, "corrupted_file": String::from_utf8_lossy(&data)}));
                            }
                        }
                    }
                }
            }
        }
        ctx.nontrivial_n(1);
        if case == 0 {
            ctx.sample(json!({"workload": wl, "file_index": fi, "file_bytes": bytes.len(), "edits_per_offset": alphabet.len() + 4, "file_head": String::from_utf8_lossy(&bytes[..bytes.len().min(200)])}));
        }
    }
}

pub fn run(ctx: &mut Ctx) {
    w_roundtrip(ctx);
    w_faults(ctx);
}

//! oracle-of-the-oracle self tests: the trusted base (double-double, jets, cone predicates,
//! refla eigen/SVD/Cholesky used by the BLAS stubs) is checked against closed forms and
//! algebraic identities before any verdict is trusted.
use serde_json::json;
use vkit::cones::{self as vc, ConeT};
use vkit::jet::{Deriv, Jet3};
use vkit::{Ctx, Rng, DD};

fn expect(ctx: &mut Ctx, name: &str, ok: bool, detail: serde_json::Value) {
    ctx.eval(1);
    ctx.nontrivial_n(1);
    if !ok {
        ctx.violation(name, name, "selftest", 0, detail);
    }
}

pub fn run(ctx: &mut Ctx) {
    if ctx.scale == 0.0 {
        return; // build-only invocation
    }
    let mut rng = Rng::for_case(ctx.seed, "selftest", 0);
    // double-double
    for _ in 0..2000 {
        let (a, b) = (rng.logmag(-8.0, 8.0), rng.logmag(-8.0, 8.0));
        let (x, y) = (DD::new(a), DD::new(b));
        let e1 = ((x * y) / y - x).abs().f() / a.abs();
        let e2 = ((x + y) - y - x).abs().f() / a.abs().max(b.abs());
        expect(ctx, "dd:mul_div", e1 < 1e-30, json!({"a": a, "b": b, "err": e1}));
        expect(ctx, "dd:add_sub", e2 < 1e-30, json!({"a": a, "b": b, "err": e2}));
        let p = DD::new(a.abs());
        let r = (p.ln().exp() - p).abs().f() / a.abs();
        expect(ctx, "dd:exp_ln", r < 1e-28, json!({"a": a, "err": r}));
        let s = p.sqrt();
        expect(ctx, "dd:sqrt", ((s * s - p).abs().f() / a.abs()) < 1e-30, json!({"a": a}));
    }
    // jets against closed-form derivatives
    for _ in 0..300 {
        let (x, y) = (rng.range(0.2, 3.0), rng.range(0.2, 3.0));
        let f = |v: &[Jet3]| (v[0] * v[1]).ln() * v[0].powf(1.5) + (v[0] / v[1]).exp();
        let d = Deriv { f: &f, x: vec![x, y] };
        let g = d.gradient();
        let gx = 1.5 * x.powf(0.5) * (x * y).ln() + x.powf(0.5) + (x / y).exp() / y;
        let gy = x.powf(1.5) / y - (x / y).exp() * x / (y * y);
        expect(ctx, "jet:gradient", (g[0] - gx).abs() < 1e-12 * gx.abs().max(1.0) && (g[1] - gy).abs() < 1e-12 * gy.abs().max(1.0), json!({"x": x, "y": y, "got": g, "want": [gx, gy]}));
        let h = d.hessian();
        let hxy = x.powf(0.5) * 1.5 / y - (x / y).exp() / (y * y) - (x / y).exp() * x / (y * y * y);
        expect(ctx, "jet:hessian_xy", (h[1] - hxy).abs() < 1e-11 * hxy.abs().max(1.0) && h[1] == h[2], json!({"got": h[1], "want": hxy}));
        // third derivative of x^3 y: T[e_x,e_x,.] = (6xy, 3x^2)... contract with u=v=e_x
        let c = |v: &[Jet3]| v[0] * v[0] * v[0] * v[1];
        let t = Deriv { f: &c, x: vec![x, y] }.third_contract(&[1.0, 0.0], &[1.0, 0.0]);
        expect(ctx, "jet:third", (t[0] - 6.0 * y).abs() < 1e-12 && (t[1] - 6.0 * x).abs() < 1e-12, json!({"got": t, "want": [6.0 * y, 6.0 * x]}));
    }
    // cone predicates on known points
    let pts: Vec<(ConeT, Vec<f64>, bool, bool)> = vec![
        (ConeT::NonnegativeConeT(3), vec![1.0, 2.0, 0.5], false, true),
        (ConeT::NonnegativeConeT(3), vec![1.0, -1e-9, 0.5], false, false),
        (ConeT::SecondOrderConeT(3), vec![5.0, 3.0, 3.9], false, true),
        (ConeT::SecondOrderConeT(3), vec![5.0, 3.0, 4.1], false, false),
        (ConeT::ExponentialConeT(), vec![0.0, 1.0, 1.1], false, true),   // y e^{x/y} = 1 <= 1.1
        (ConeT::ExponentialConeT(), vec![0.5, 1.0, 1.6], false, false),  // e^{.5}=1.6487 > 1.6
        (ConeT::ExponentialConeT(), vec![-1.0, 1.0, 1.0], true, true),   // -u e^{v/u-1} = e^{-2} <= 1
        (ConeT::ExponentialConeT(), vec![-1.0, -3.0, 1.0], true, false), // e^{3-1} > 1
        (ConeT::PowerConeT(0.3), vec![1.0, 1.0, 0.99], false, true),
        (ConeT::PowerConeT(0.3), vec![1.0, 1.0, -1.01], false, false),
        (ConeT::PowerConeT(0.5), vec![0.5, 0.5, 0.99], true, true), // (u/a)^a (v/(1-a))^(1-a) = 1
        (ConeT::PowerConeT(0.5), vec![0.5, 0.5, 1.01], true, false),
        (ConeT::GenPowerConeT(vec![0.25, 0.75], 2), vec![16.0, 1.0, 1.2, 1.5], false, true), // 2*1 =2 >= 1.92
        (ConeT::GenPowerConeT(vec![0.25, 0.75], 2), vec![16.0, 1.0, 1.5, 1.5], false, false),
    ];
    for (c, v, dual, inside) in pts {
        let (m, _) = vc::margin(&c, &v, dual);
        expect(ctx, "cones:known_points", (m > 0.0) == inside, json!({"cone": vkit::problem::cones_json(&[c.clone()]), "point": v, "dual": dual, "margin": m, "inside": inside}));
    }
    #[cfg(feature = "sdp")]
    {
        let m = [2.0, 1.0, 1.0, 2.0];
        let sv = vc::mat_to_svec(2, &m);
        expect(ctx, "cones:psd", vc::margin(&ConeT::PSDTriangleConeT(2), &sv, false).0 > 0.99, json!({"svec": sv}));
        let m = [1.0, 2.0, 2.0, 1.0];
        let sv = vc::mat_to_svec(2, &m);
        expect(ctx, "cones:psd", vc::margin(&ConeT::PSDTriangleConeT(2), &sv, false).0 < -0.99, json!({"svec": sv}));
    }
    // interior samplers really are interior, for every kind, primal and dual
    for _ in 0..3000 {
        let o = vkit::gen::GenOpts { kinds: vkit::gen::all_kinds(), allow_empty_cones: false, ..Default::default() };
        let k = *rng.choose(&o.kinds);
        if let Some(c) = vkit::gen::random_cone(&mut rng, k, 20, &o) {
            if vc::cone_dim(&c) == 0 || matches!(c, ConeT::ZeroConeT(_)) {
                continue;
            }
            for dual in [false, true] {
                let depth = *rng.choose(&[1.0, 1e-3, 1e-6]);
                let mag = rng.logpos(-3.0, 3.0);
                let v = vc::sample_interior(&c, &mut rng, dual, mag, depth);
                let (m, s) = vc::margin(&c, &v, dual);
                expect(ctx, "cones:sampler_interior", m > 0.0 && m / s > 1e-9, json!({"cone": vkit::problem::cones_json(&[c.clone()]), "dual": dual, "point": v, "margin": m}));
            }
        }
    }
    // refla: eigen / SVD / Cholesky identities on random matrices (also run as `cargo test -p refla`)
    for trial in 0..300 {
        let n = 1 + trial % 8;
        let mut a = vec![0.0; n * n];
        for j in 0..n {
            for i in 0..=j {
                let v = rng.normal();
                a[i + j * n] = v;
                a[j + i * n] = v;
            }
        }
        let (w, v) = refla::jacobi_eig_sym(n, &a);
        let mut worst = 0.0f64;
        for j in 0..n {
            for i in 0..n {
                let av: f64 = (0..n).map(|k| a[i + k * n] * v[k + j * n]).sum();
                worst = worst.max((av - w[j] * v[i + j * n]).abs());
            }
        }
        expect(ctx, "refla:eig", worst < 1e-12 * n as f64, json!({"n": n, "residual": worst}));
        let (s, u, vt) = refla::jacobi_svd(n, n, &a);
        let mut worst = 0.0f64;
        for j in 0..n {
            for i in 0..n {
                let r: f64 = (0..n).map(|l| u[i + l * n] * s[l] * vt[l + j * n]).sum();
                worst = worst.max((r - a[i + j * n]).abs());
            }
        }
        expect(ctx, "refla:svd", worst < 1e-12 * n as f64, json!({"n": n, "residual": worst}));
    }
    ctx.sample(json!({"what": "double-double identities, jet derivatives vs closed forms, cone predicates on known points, interior samplers, refla eig/svd identities"}));
}

//! C15 — cone step lengths are safe and tight; margins / shifts / initialisation land strictly inside.
use clarabel::solver::traits::Variables;
use clarabel::solver::{DefaultSettings, DefaultVariables};
use clarabel::verif::{make_cone, CompositeCone, Cone, PrimalOrDualCone, ScalingStrategy, SupportedCone};
use serde_json::json;
use vkit::cones::{self as vc, cone_dim, cone_name, cone_ranges, ConeT};
use vkit::gen;
use vkit::{Ctx, Rng};

fn is_symmetric_kind(c: &ConeT) -> bool {
    !matches!(c, ConeT::ExponentialConeT() | ConeT::PowerConeT(_) | ConeT::GenPowerConeT(_, _))
}

/// relative margin of x + a*d in the cone; scale = |x|inf + a*|d|inf
fn ray_margin(c: &ConeT, x: &[f64], d: &[f64], a: f64, dual: bool) -> f64 {
    let p: Vec<f64> = x.iter().zip(d).map(|(xi, di)| xi + a * di).collect();
    let (m, _) = vc::margin(c, &p, dual);
    let sc = x.iter().fold(0.0f64, |m, v| m.max(v.abs())) + a * d.iter().fold(0.0f64, |m, v| m.max(v.abs()));
    m / sc.max(1e-300)
}

/// largest a in [0, amax] with x + a d in the cone (bisection on the harness predicate);
/// returns (a_star, hit) where hit=false means the whole segment is inside
fn exact_step(c: &ConeT, x: &[f64], d: &[f64], amax: f64, dual: bool) -> (f64, bool) {
    if ray_margin(c, x, d, amax, dual) >= 0.0 {
        return (amax, false);
    }
    let (mut lo, mut hi) = (0.0f64, amax);
    for _ in 0..200 {
        let mid = 0.5 * (lo + hi);
        if mid == lo || mid == hi {
            break;
        }
        if ray_margin(c, x, d, mid, dual) >= 0.0 {
            lo = mid;
        } else {
            hi = mid;
        }
    }
    (lo, true)
}

fn interior_point(c: &ConeT, rng: &mut Rng, dual: bool) -> Vec<f64> {
    let depth = *rng.choose(&[1.0, 0.3, 1e-2, 1e-4, 1e-8]);
    // cones are scale invariant: one point in eight lives at an extreme overall scale (directions follow the point's
    // scale), where absolute thresholds in an implementation would show
    let mag = if rng.bool(0.125) { rng.logpos(-40.0, 40.0) } else { rng.logpos(-3.0, 3.0) };
    vc::sample_interior(c, rng, dual, mag, depth)
}

/// directions: random, inward, outward, tangent-ish, exactly along -x (through the apex), zero, boundary-grazing
fn direction(c: &ConeT, rng: &mut Rng, x: &[f64], dual: bool) -> (Vec<f64>, &'static str) {
    let n = x.len();
    let xs = x.iter().fold(0.0f64, |m, v| m.max(v.abs())).max(1e-300);
    let k = rng.usize(0, 8);
    match k {
        0 | 1 => ((0..n).map(|_| rng.normal() * xs * rng.logpos(-2.0, 2.0)).collect(), "random"),
        2 => {
            // inward: towards another interior point
            let y = vc::sample_interior(c, rng, dual, xs, 1.0);
            ((0..n).map(|i| y[i] - 0.5 * x[i]).collect(), "inward")
        }
        3 => {
            // outward: away from an interior point, scaled up
            let y = vc::sample_interior(c, rng, dual, xs, 1.0);
            let f = rng.logpos(0.0, 3.0);
            ((0..n).map(|i| f * (x[i] - 2.0 * y[i])).collect(), "outward")
        }
        4 => {
            let f = rng.logpos(-1.0, 2.0);
            (x.iter().map(|v| -f * v).collect(), "through_apex")
        }
        5 => (vec![0.0; n], "zero"),
        6 => {
            // boundary-grazing for SOC-like structure: direction ON the boundary of K or -K
            match c {
                ConeT::SecondOrderConeT(_) if n >= 2 => {
                    let mut d: Vec<f64> = (0..n).map(|_| rng.normal()).collect();
                    // small integers make |d1| exactly representable: a == 0 exactly
                    if rng.bool(0.5) {
                        d = vec![0.0; n];
                        d[1] = *rng.choose(&[1.0, -1.0, 2.0]);
                        d[0] = d[1].abs() * if rng.bool(0.5) { 1.0 } else { -1.0 };
                    } else {
                        let nt = d[1..].iter().map(|v| v * v).sum::<f64>().sqrt();
                        d[0] = nt * if rng.bool(0.5) { 1.0 } else { -1.0 };
                    }
                    let f = xs * rng.logpos(-1.0, 1.0);
                    (d.iter().map(|v| v * f).collect(), "boundary_ray")
                }
                _ => ((0..n).map(|_| rng.normal() * xs).collect(), "random"),
            }
        }
        7 => {
            // tangent-ish: orthogonal perturbation of the tail / off-diagonal
            let mut d: Vec<f64> = (0..n).map(|_| rng.normal() * xs).collect();
            d[0] = 0.0;
            (d, "tangent")
        }
        _ => {
            // single coordinate
            let mut d = vec![0.0; n];
            let i = rng.usize(0, n - 1);
            d[i] = -xs * rng.logpos(-1.0, 2.0);
            (d, "coordinate")
        }
    }
}

fn settings(rng: &mut Rng) -> DefaultSettings<f64> {
    let mut st = gen::default_settings();
    st.linesearch_backtrack_step = *rng.choose(&[0.5, 0.8, 0.95]);
    st.max_step_fraction = *rng.choose(&[0.5, 0.9, 0.99, 0.999]);
    st
}

fn single_cone_case(ctx: &mut Ctx, wl: &str, case: u64, rng: &mut Rng, ct: &ConeT) {
    let n = cone_dim(ct);
    if n == 0 {
        return;
    }
    let st = settings(rng);
    let mut cone: SupportedCone<f64> = make_cone(ct);
    let s = interior_point(ct, rng, false);
    let z = interior_point(ct, rng, true);
    // PSD step lengths use the scaling of the last update_scaling: call it with this (s,z)
    let sym = is_symmetric_kind(ct);
    if sym {
        let ok = cone.update_scaling(&s, &z, 1.0, ScalingStrategy::PrimalDual);
        if !ok {
            ctx.bump("update_scaling_declined");
            return;
        }
    }
    let (ds, ks) = direction(ct, rng, &s, false);
    let (dz, kz) = direction(ct, rng, &z, true);
    let mut amax = *rng.choose(&[1.0, 1.0, 0.5, 0.99, 1e-3]);
    // one case in twelve asks for a maximum BELOW min_terminate_step_length (side stream: the main stream of draws is
    // unchanged): the requested maximum itself is always tried, whatever the termination threshold
    {
        let mut r2 = Rng::for_case(ctx.seed, "C15/small_alpha_max", case);
        if r2.bool(0.08) {
            amax = st.min_terminate_step_length * *r2.choose(&[0.99, 0.5, 0.2, 0.01]);
            ctx.bump("alpha_max_below_min_terminate_step_length");
        }
    }
    let (az, a_s) = cone.step_length(&dz, &ds, &z, &s, &st, amax);
    ctx.bump(&format!("dir_{ks}"));
    ctx.bump(&format!("dir_{kz}"));
    let name = cone_name(ct);
    for (a, x, d, dual, which, kd) in [(az, &z, &dz, true, "z", kz), (a_s, &s, &ds, false, "s", ks)] {
        ctx.eval(1);
        let detail = |extra: serde_json::Value| json!({"cone": vkit::problem::cones_json(&[ct.clone()]), "x": x, "d": d, "alpha_max": amax, "returned": a, "which": which, "direction_kind": kd, "backtrack_step": st.linesearch_backtrack_step, "extra": extra});
        if !(a >= 0.0 && a <= amax) {
            ctx.violation(&format!("{name}:alpha_out_of_range"), &format!("{name}:alpha_out_of_range"), wl, case, detail(json!({})));
            continue;
        }
        // safe: the stepped point is in the cone.  The step is computed from differences of
        // products of the entries of x and d: for a starting point within relative distance r of
        // the boundary its relative rounding error is u/r, hence the allowance
        let m = ray_margin(ct, x, d, a, dual);
        let (mx, sx) = vc::margin(ct, x, dual);
        let rel_x = (mx / sx).max(1e-16);
        let allow = 1e-12 + 256.0 * 1.1e-16 / rel_x;
        if !(m >= -allow) {
            let branch = if name == "SOC" { soc_branch(x, d) } else { "" };
            ctx.violation(&format!("{name}:step_leaves_cone"), &format!("{name}:step_leaves_cone{}", if branch.is_empty() { String::new() } else { format!(":{branch}") }), wl, case, detail(json!({"relative_margin_after_step": m, "soc_branch": branch})));
            continue;
        }
        let (astar, hit) = exact_step(ct, x, d, amax, dual);
        if name == "SOC" {
            ctx.bump(&format!("soc_branch_{}", soc_branch(x, d)));
        }
        if sym {
            // tight: exact distance to the boundary (or the maximum)
            // 1e-6: at a double root (direction through the apex) the quadratic formula loses half the digits
            let ok = a >= (1.0 - 1e-6) * astar || m <= 1e-9;
            if !ok {
                ctx.violation(&format!("{name}:step_needlessly_short"), &format!("{name}:step_needlessly_short"), wl, case, detail(json!({"exact_boundary_distance": astar, "hit_boundary": hit, "relative_margin_after_step": m})));
            }
            ctx.bump(if hit { "symmetric_boundary_limited" } else { "symmetric_alpha_max" });
        } else {
            // backtracking grid: a in {amax*step^k} or 0
            let step = st.linesearch_backtrack_step;
            if a == 0.0 {
                // legitimate only if the requested maximum and every later trial above min_terminate_step_length fail
                let mut t = amax;
                let mut any_inside = false;
                loop {
                    if ray_margin(ct, x, d, t, dual) > 1e-11 {
                        any_inside = true;
                        break;
                    }
                    t *= step;
                    if t < st.min_terminate_step_length {
                        break;
                    }
                }
                if any_inside {
                    ctx.violation(&format!("{name}:zero_step_but_trial_inside"), &format!("{name}:zero_step_but_trial_inside"), wl, case, detail(json!({"inside_trial": t})));
                }
                ctx.bump("nonsym_zero_step");
            } else {
                let k = (a / amax).ln() / step.ln();
                let kr = k.round();
                if (k - kr).abs() > 1e-6 {
                    ctx.violation(&format!("{name}:alpha_not_on_backtracking_grid"), &format!("{name}:alpha_not_on_backtracking_grid"), wl, case, detail(json!({"k": k})));
                } else if kr > 0.5 {
                    // previous trial must be outside (don't-care within 1e-11 of the boundary)
                    let prev = a / step;
                    let mp = ray_margin(ct, x, d, prev, dual);
                    if mp > 1e-11 {
                        ctx.violation(&format!("{name}:previous_trial_was_inside"), &format!("{name}:previous_trial_was_inside"), wl, case, detail(json!({"previous_trial": prev, "its_relative_margin": mp})));
                    }
                    ctx.bump("nonsym_backtracked");
                } else {
                    ctx.bump("nonsym_alpha_max");
                }
            }
        }
    }
}

/// the oracle's own classification of the SOC quadratic branch
fn soc_branch(x: &[f64], y: &[f64]) -> &'static str {
    let res = |v: &[f64]| v[0] * v[0] - v[1..].iter().map(|t| t * t).sum::<f64>();
    let a = res(y);
    let b = 2.0 * (x[0] * y[0] - x[1..].iter().zip(&y[1..]).map(|(p, q)| p * q).sum::<f64>());
    let c = res(x).max(0.0);
    let d = b * b - 4.0 * a * c;
    if a > 0.0 && b > 0.0 {
        "a>0_b>0"
    } else if d < 0.0 {
        "d<0"
    } else if a == 0.0 {
        if b < 0.0 {
            "a=0_b<0"
        } else {
            "a=0_b>=0"
        }
    } else if c == 0.0 {
        "c=0"
    } else if b >= 0.0 {
        "roots_b>=0"
    } else {
        "roots_b<0"
    }
}

fn composite_case(ctx: &mut Ctx, wl: &str, case: u64, rng: &mut Rng) {
    let o = gen::GenOpts { kinds: gen::all_kinds(), allow_empty_cones: false, mmax: 30, ..Default::default() };
    let cts: Vec<ConeT> = gen::random_cone_list(rng, &o).into_iter().filter(|c| !matches!(c, ConeT::SecondOrderConeT(1))).collect();
    #[cfg(feature = "sdp")]
    let cts: Vec<ConeT> = cts.into_iter().filter(|c| !matches!(c, ConeT::PSDTriangleConeT(1))).collect();
    if cts.is_empty() {
        return;
    }
    let st = settings(rng);
    let mut comp = CompositeCone::<f64>::new(&cts);
    let mut s = vec![];
    let mut z = vec![];
    for c in &cts {
        s.extend(interior_point(c, rng, false));
        z.extend(interior_point(c, rng, true));
    }
    if !comp.update_scaling(&s, &z, 1.0, ScalingStrategy::Dual) {
        ctx.bump("update_scaling_declined");
        return;
    }
    let mut ds = vec![];
    let mut dz = vec![];
    for (c, r) in cts.iter().zip(cone_ranges(&cts)) {
        ds.extend(direction(c, rng, &s[r.clone()], false).0);
        dz.extend(direction(c, rng, &z[r.clone()], true).0);
    }
    let amax = *rng.choose(&[1.0, 0.7]);
    let (a1, a2) = comp.step_length(&dz, &ds, &z, &s, &st, amax);
    ctx.eval(1);
    let detail = |extra: serde_json::Value| json!({"cones": vkit::problem::cones_json(&cts), "s": s, "z": z, "ds": ds, "dz": dz, "alpha_max": amax, "returned": [a1, a2], "max_step_fraction": st.max_step_fraction, "backtrack_step": st.linesearch_backtrack_step, "extra": extra});
    if a1 != a2 || !(a1 >= 0.0 && a1 <= amax) {
        ctx.violation("composite:alpha_out_of_range", "composite:alpha_out_of_range", wl, case, detail(json!({})));
        return;
    }
    // safe for every cone
    for (c, r) in cts.iter().zip(cone_ranges(&cts)) {
        if matches!(c, ConeT::ZeroConeT(_)) {
            continue;
        }
        let ms = ray_margin(c, &s[r.clone()], &ds[r.clone()], a1, false);
        let mz = ray_margin(c, &z[r.clone()], &dz[r.clone()], a1, true);
        let rs = {
            let (a, b) = vc::margin(c, &s[r.clone()], false);
            (a / b).max(1e-16)
        };
        let rz = {
            let (a, b) = vc::margin(c, &z[r.clone()], true);
            (a / b).max(1e-16)
        };
        if !(ms >= -(1e-12 + 256.0 * 1.1e-16 / rs) && mz >= -(1e-12 + 256.0 * 1.1e-16 / rz)) {
            ctx.violation("composite:step_leaves_cone", &format!("composite:step_leaves_cone:{}", cone_name(c)), wl, case, detail(json!({"cone": cone_name(c), "margins": [ms, mz]})));
            return;
        }
    }
    // not needlessly short, whatever order the cones are visited in: with a* the exact boundary
    // distance over ALL cones (bisection on the harness predicates) and cap = alpha_max (and
    // max_step_fraction when a nonsymmetric cone is present):
    //   all cones symmetric  : alpha >= (1-1e-6) min(cap, a*)
    //   otherwise            : alpha >= step * min(cap, a*) (one backtracking factor), and alpha = 0 only
    //                          if the trial sequence can fall below min_terminate_step_length
    let any_nonsym = cts.iter().any(|c| !is_symmetric_kind(c));
    let cap = if any_nonsym { amax.min(st.max_step_fraction) } else { amax };
    let mut astar = cap;
    let mut astar_nonsym = cap;
    for (c, r) in cts.iter().zip(cone_ranges(&cts)) {
        if matches!(c, ConeT::ZeroConeT(_)) {
            continue;
        }
        let (az, _) = exact_step(c, &z[r.clone()], &dz[r.clone()], cap, true);
        let (a_s, _) = exact_step(c, &s[r.clone()], &ds[r.clone()], cap, false);
        astar = astar.min(az).min(a_s);
        if !is_symmetric_kind(c) {
            astar_nonsym = astar_nonsym.min(az).min(a_s);
        }
    }
    let step = st.linesearch_backtrack_step;
    // (per-cone exactness is judged in the single-cone workload; here the composition is judged, 1e-5)
    let ok = if !any_nonsym {
        a1 >= (1.0 - 1e-5) * astar
    } else if a1 == 0.0 {
        // some nonsymmetric search gave up: its boundary must be closer than min_terminate/step
        astar_nonsym <= st.min_terminate_step_length / step * (1.0 + 1e-9)
    } else {
        a1 >= step * astar * (1.0 - 1e-5)
    };
    // a step that already sits on some cone's boundary (to rounding) is not "short", whatever a* says
    let mut min_margin_after = f64::INFINITY;
    for (c, r) in cts.iter().zip(cone_ranges(&cts)) {
        if matches!(c, ConeT::ZeroConeT(_)) {
            continue;
        }
        min_margin_after = min_margin_after.min(ray_margin(c, &s[r.clone()], &ds[r.clone()], a1, false)).min(ray_margin(c, &z[r.clone()], &dz[r.clone()], a1, true));
    }
    let ok = ok || (!any_nonsym && min_margin_after <= 1e-9);
    if !ok {
        ctx.violation("composite:step_needlessly_short", "composite:step_needlessly_short", wl, case, detail(json!({"exact_boundary_distance_all_cones": astar, "nonsymmetric_only": astar_nonsym, "cap": cap})));
    }
    ctx.bump(if any_nonsym { "composite_with_nonsymmetric" } else { "composite_symmetric_only" });
    ctx.observe_max("composite_alpha_over_exact", if astar > 0.0 { a1 / astar } else { 0.0 });
}

fn margins_case(ctx: &mut Ctx, wl: &str, case: u64, rng: &mut Rng) {
    // symmetric cones only (nonsymmetric problems use unit initialisation)
    let mut o = gen::GenOpts { kinds: gen::all_kinds().into_iter().filter(|k| ["Zero", "NN", "SOC", "PSD"].contains(k)).collect(), allow_empty_cones: false, mmax: 30, ..Default::default() };
    o.psd_max = 6;
    let cts: Vec<ConeT> = gen::random_cone_list(rng, &o).into_iter().filter(|c| !vkit::kkt::is_singleton_nonneg(c)).collect();
    if cts.is_empty() {
        return;
    }
    let m = vc::total_dim(&cts);
    let mut comp = CompositeCone::<f64>::new(&cts);
    // margins of an arbitrary vector = (min, positive sum) of the oracle spectrum
    let mag = rng.logpos(-3.0, 3.0);
    let mut v: Vec<f64> = (0..m).map(|_| rng.normal() * mag).collect();
    // a slice in which whole blocks are EXACTLY zero (the apex): what the initial KKT solve returns for z when
    // P = 0 and q = 0, or for s when b = 0.  The margin of the apex is 0, not "undefined", and it must count
    let zero_blocks = rng.bool(0.15);
    let zero_ranges: Vec<std::ops::Range<usize>> = if zero_blocks {
        let all = rng.bool(0.3);
        cts.iter().zip(cone_ranges(&cts)).filter(|(c, _)| !matches!(c, ConeT::ZeroConeT(_))).filter_map(|(_, r)| if all || rng.bool(0.6) { Some(r) } else { None }).collect()
    } else {
        vec![]
    };
    for r in &zero_ranges {
        for i in r.clone() {
            v[i] = 0.0;
        }
    }
    if !zero_ranges.is_empty() {
        ctx.bump("instances_with_exactly_zero_blocks");
    }
    let v = v;
    let mut v2 = v.clone();
    let (alpha, beta) = comp.margins(&mut v2, PrimalOrDualCone::PrimalCone);
    let mut want_min = f64::INFINITY;
    let mut want_pos = 0.0;
    for (c, r) in cts.iter().zip(cone_ranges(&cts)) {
        let x = &v[r];
        match c {
            ConeT::ZeroConeT(_) => {}
            ConeT::NonnegativeConeT(_) => {
                for t in x {
                    want_min = f64::min(want_min, *t);
                    want_pos += t.max(0.0);
                }
            }
            ConeT::SecondOrderConeT(_) => {
                let a = x[0] - x[1..].iter().map(|t| t * t).sum::<f64>().sqrt();
                want_min = want_min.min(a);
                want_pos += a.max(0.0);
            }
            #[cfg(feature = "sdp")]
            ConeT::PSDTriangleConeT(n) => {
                let mm = vc::svec_to_mat(*n, x);
                let (w, _) = refla::jacobi_eig_sym(*n, &mm);
                want_min = want_min.min(w[0]);
                want_pos += w.iter().map(|t| t.max(0.0)).sum::<f64>();
            }
            _ => {}
        }
    }
    ctx.eval(1);
    let all_zero_cones = cts.iter().all(|c| matches!(c, ConeT::ZeroConeT(_)));
    if !all_zero_cones {
        let sc = mag * (m as f64).sqrt();
        if !((alpha - want_min).abs() <= 1e-10 * sc && (beta - want_pos).abs() <= 1e-10 * sc * m as f64) {
            ctx.violation("margins", "margins", wl, case, json!({"cones": vkit::problem::cones_json(&cts), "v": v, "got": [alpha, beta], "want": [want_min, want_pos]}));
        }
    }
    // symmetric initialisation of arbitrary (s,z): strictly interior afterwards
    let mut vars = DefaultVariables::<f64>::new(1, m);
    vars.s = (0..m).map(|_| rng.normal() * mag).collect();
    vars.z = (0..m).map(|_| rng.normal() * rng.logpos(-3.0, 3.0)).collect();
    if rng.bool(0.2) {
        // already interior, small margin
        let mut s = vec![];
        for c in &cts {
            s.extend(vc::sample_interior(c, rng, false, mag, 1e-6));
        }
        vars.s = s;
    }
    // a slice with a few components astronomically far outside (what an initial KKT solve returns for
    // big-M data): the shift has to move the vector by that much and still leave a positive margin
    let far = rng.bool(0.15);
    if far {
        for _ in 0..rng.usize(1, 3) {
            let i = rng.usize(0, m - 1);
            let big = -(10f64.powf(rng.range(14.0, 40.0)));
            if rng.bool(0.5) {
                vars.s[i] = big;
            } else {
                vars.z[i] = big;
            }
        }
        ctx.bump("initialization_far_outside_instances");
    }
    for r in &zero_ranges {
        let which = rng.usize(0, 2);
        for i in r.clone() {
            if which != 1 {
                vars.z[i] = 0.0;
            }
            if which != 0 {
                vars.s[i] = 0.0;
            }
        }
    }
    let z_before = vars.z.clone();
    let s_before = vars.s.clone();
    vars.symmetric_initialization(&mut comp);
    ctx.eval(1);
    for (c, r) in cts.iter().zip(cone_ranges(&cts)) {
        let (sv, zv) = (&vars.s[r.clone()], &vars.z[r.clone()]);
        if let ConeT::ZeroConeT(_) = c {
            if sv.iter().any(|t| *t != 0.0) || zv.iter().zip(&z_before[r.clone()]).any(|(a, b)| a.to_bits() != b.to_bits()) {
                ctx.violation("initialization:zero_cone", "initialization:zero_cone", wl, case, json!({"s": sv, "z": zv, "z_before": &z_before[r.clone()]}));
            }
            continue;
        }
        let (ms, ss) = vc::margin(c, sv, false);
        let (mz, sz) = vc::margin(c, zv, true);
        // interior means a positive margin; the relative form only guards against an oracle-side rounding
        // of the margin itself, which cannot happen for the orthant (exact minimum)
        // (PSD margins are eigenvalues computed in double precision: they keep the relative form)
        let strict = matches!(c, ConeT::NonnegativeConeT(_)) || (far && matches!(c, ConeT::SecondOrderConeT(_)));
        let ok = if strict {
            ms > 0.0 && mz > 0.0
        } else if far {
            // PSD block at astronomic scale: only a margin that is negative beyond the oracle's own
            // eigenvalue rounding refutes interiority
            ms > -1e-14 * ss && mz > -1e-14 * sz
        } else {
            ms > 1e-14 * ss && mz > 1e-14 * sz
        };
        if !ok {
            // recorded finding: a second-order or PSD block in which some component (before or after the
            // shift) has magnitude >= 2^52: the unit shift and/or the target margin is absorbed by rounding
            // and the block stays on or outside the boundary.  Orthant blocks are never excused.
            let huge = |v: &[f64]| v.iter().fold(0.0f64, |m, t| m.max(t.abs())) >= 4.5e15;
            let nonpoly = !matches!(c, ConeT::NonnegativeConeT(_));
            let absorbed = nonpoly && (huge(sv) || huge(zv) || huge(&s_before[r.clone()]) || huge(&z_before[r.clone()]));
            let sig = if absorbed { format!("initialization:not_interior:{}:shift_absorbed_by_rounding", cone_name(c)) } else { format!("initialization:not_interior:{}", cone_name(c)) };
            ctx.violation("initialization:not_interior", &sig, wl, case, json!({"cone": cone_name(c), "s": sv, "z": zv, "margins": [ms, mz]}));
        }
    }
    if vars.τ != 1.0 || vars.κ != 1.0 {
        ctx.violation("initialization:tau_kappa", "initialization:tau_kappa", wl, case, json!({"tau": vars.τ, "kappa": vars.κ}));
    }
    // scaled_unit_shift moves the margin by exactly the shift
    let mut w = v.clone();
    let sh = rng.range(0.0, 2.0) * mag;
    comp.scaled_unit_shift(&mut w, sh, PrimalOrDualCone::PrimalCone);
    let (a2, _) = comp.margins(&mut w.clone(), PrimalOrDualCone::PrimalCone);
    ctx.eval(1);
    if !all_zero_cones && !((a2 - (alpha + sh)).abs() <= 1e-9 * (mag * (m as f64).sqrt() + sh)) {
        ctx.violation("scaled_unit_shift", "scaled_unit_shift", wl, case, json!({"cones": vkit::problem::cones_json(&cts), "margin_before": alpha, "shift": sh, "margin_after": a2}));
    }
}

/// unit initialisation (the start of every problem with a nonsymmetric cone, re-solves included) writes the whole
/// of s and z: whatever the buffers held before - the previous solve's solution - is gone, every proper block is
/// strictly inside its cone, zero-cone blocks are zero, and the result does not depend on the old contents
fn unit_init_case(ctx: &mut Ctx, wl: &str, case: u64, rng: &mut Rng) {
    let o = gen::GenOpts { kinds: gen::all_kinds(), allow_empty_cones: false, mmax: 30, psd_max: 4, ..Default::default() };
    let cts: Vec<ConeT> = gen::random_cone_list(rng, &o).into_iter().filter(|c| !vkit::kkt::is_singleton_nonneg(c)).collect();
    if cts.is_empty() {
        return;
    }
    let m = vc::total_dim(&cts);
    let comp = CompositeCone::<f64>::new(&cts);
    let mag = rng.logpos(-2.0, 4.0);
    let mut z: Vec<f64> = (0..m).map(|_| rng.normal() * mag).collect();
    let mut s: Vec<f64> = (0..m).map(|_| rng.normal() * mag).collect();
    comp.unit_initialization(&mut z, &mut s);
    let (mut z0, mut s0) = (vec![0.0; m], vec![0.0; m]);
    comp.unit_initialization(&mut z0, &mut s0);
    ctx.eval(1);
    if z.iter().zip(&z0).any(|(a, b)| a.to_bits() != b.to_bits()) || s.iter().zip(&s0).any(|(a, b)| a.to_bits() != b.to_bits()) {
        ctx.violation("unit_initialization:depends_on_old_buffer_contents", "unit_initialization:depends_on_old_buffer_contents", wl, case, json!({"cones": vkit::problem::cones_json(&cts), "from_dirty_buffers": {"s": s, "z": z}, "from_zeroed_buffers": {"s": s0, "z": z0}}));
        return;
    }
    for (c, r) in cts.iter().zip(cone_ranges(&cts)) {
        let (sv, zv) = (&s[r.clone()], &z[r.clone()]);
        if let ConeT::ZeroConeT(_) = c {
            if sv.iter().chain(zv.iter()).any(|t| *t != 0.0) {
                ctx.violation("unit_initialization:zero_cone", "unit_initialization:zero_cone", wl, case, json!({"s": sv, "z": zv}));
            }
            continue;
        }
        let (ms, ss) = vc::margin(c, sv, false);
        let (mz, sz) = vc::margin(c, zv, true);
        if !(ms > 1e-6 * ss && mz > 1e-6 * sz) {
            ctx.violation("unit_initialization:not_interior", &format!("unit_initialization:not_interior:{}", cone_name(c)), wl, case, json!({"cone": cone_name(c), "s": sv, "z": zv, "margins": [ms, mz]}));
        }
    }
}

pub fn run(ctx: &mut Ctx) {
    let wl = "single_cone";
    let total = if ctx.flavour == "miri" { ctx.count(80, 400) } else { ctx.count(40000, 800000) };
    for case in ctx.cases(wl, total) {
        if ctx.out_of_budget() {
            continue;
        }
        if case % 512 == 0 || ctx.flavour == "miri" {
            ctx.begin(wl, case);
        }
        let mut rng = Rng::for_case(ctx.seed, "C15/single_cone", case);
        let mut o = gen::GenOpts { kinds: gen::all_kinds(), allow_empty_cones: false, ..Default::default() };
        o.psd_max = if ctx.flavour == "miri" { 3 } else { 6 };
        let kind = *rng.choose(&["NN", "SOC", "SOC", "Exp", "Pow", "GenPow", "PSD", "SOC"]);
        let ct = match gen::random_cone(&mut rng, kind, 40, &o) {
            Some(c) if cone_dim(&c) > 0 && !vkit::kkt::is_singleton_nonneg(&c) => c,
            _ => ConeT::SecondOrderConeT(3),
        };
        ctx.bump(&format!("kind_{}", cone_name(&ct)));
        ctx.nontrivial_n(1);
        let r = vkit::report::catch(std::panic::AssertUnwindSafe(|| single_cone_case(ctx, wl, case, &mut rng, &ct)));
        if let Err(msg) = r {
            ctx.violation("panic", &format!("panic:{}", msg.rsplit(" @ ").next().unwrap_or("").replace("/repo/", "")), wl, case, json!({"cone": vkit::problem::cones_json(&[ct.clone()]), "panic": msg}));
        }
        if case < 2 {
            ctx.sample(json!({"workload": wl, "cone": vkit::problem::cones_json(&[ct])}));
        }
    }
    let wl = "composite";
    let total = if ctx.flavour == "miri" { ctx.count(10, 50) } else { ctx.count(6000, 100000) };
    for case in ctx.cases(wl, total) {
        if ctx.out_of_budget() {
            continue;
        }
        if case % 256 == 0 || ctx.flavour == "miri" {
            ctx.begin(wl, case);
        }
        let mut rng = Rng::for_case(ctx.seed, "C15/composite", case);
        ctx.nontrivial_n(1);
        let r = vkit::report::catch(std::panic::AssertUnwindSafe(|| {
            composite_case(ctx, wl, case, &mut rng);
            margins_case(ctx, wl, case, &mut rng);
            unit_init_case(ctx, wl, case, &mut rng);
        }));
        if let Err(msg) = r {
            ctx.violation("panic", &format!("panic:{}", msg.rsplit(" @ ").next().unwrap_or("").replace("/repo/", "")), wl, case, json!({"panic": msg}));
        }
    }
}

#!/bin/bash
# usage: run_all.sh <quick|thorough> <seed> [checks...]  — runs the checks on /repo's current tree, one line each
tier=$1; seed=$2; shift 2
checks=${@:-C01 C02 C03 C04 C05 C06 C07 C08 C09 C10 C11 C12 C13 C14 C15 C16 C17 C18 C19 C20}
cd /verif
for c in $checks; do
  out=$(VERIF_SEED=$seed ./check $c $tier 2>&1); rc=$?
  echo "rc=$rc $(echo "$out" | tail -1) $(echo "$out" | grep -E '^(VIOLATION|KNOWN-FINDING|HARNESS-ERROR|BUILD-FAILED)' | head -3 | tr '\n' ';')"
done

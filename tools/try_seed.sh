#!/bin/bash
# usage: try_seed.sh <seed-id> [check-id ...]   applies seeded/<seed-id>/patch.diff to /repo, runs the quick
# checks (default: the seed's own property), prints one line per check, and always reverts /repo.
set -u
seed=$1; shift
checks=${@:-$seed}
cd /verif
if [ -n "$(git -C /repo status --porcelain)" ]; then echo "REPO NOT CLEAN"; exit 2; fi
if ! git -C /repo apply --check /verif/seeded/$seed/patch.diff 2>/dev/null; then echo "$seed: PATCH DOES NOT APPLY"; exit 2; fi
git -C /repo apply /verif/seeded/$seed/patch.diff
for c in $checks; do
  out=$(VERIF_SEED=${VERIF_SEED:-1} ./check $c ${TIER:-quick} 2>&1); rc=$?
  nv=$(echo "$out" | grep -c '^VIOLATION')
  sigs=$(echo "$out" | grep 'oracle=' | sed 's/.*sig=\([^ ]*\).*/\1/' | sort | uniq -c | sort -rn | head -4 | tr '\n' ';')
  echo "seed=$seed check=$c rc=$rc violations_printed=$nv :: $(echo "$out" | tail -1) :: $sigs"
done
git -C /repo checkout -- .

//! C03 — the solver's report about its own result is truthful and self-consistent.
use crate::common::*;
use clarabel::solver::SolverStatus;
use serde_json::json;
use vkit::gen::{self, GenOpts};
use vkit::kkt;
use vkit::problem::{self, is_infeasible_status, status_name};
use vkit::{Ctx, Rng};

pub fn run(ctx: &mut Ctx) {
    let bound = clarabel::get_infinity();
    let wl = "mixed";
    let total = ctx.count(4000, 40000);
    for case in ctx.cases(wl, total) {
        if ctx.out_of_budget() {
            continue;
        }
        ctx.begin(wl, case);
        let mut rng = Rng::for_case(ctx.seed, "C03/mixed", case);
        let mut o = GenOpts { kinds: gen::all_kinds(), ..Default::default() };
        o.nmax = *rng.choose(&[3, 8, 20]);
        o.mmax = *rng.choose(&[8, 25, 50]);
        let fam = rng.usize(0, 9);
        let p = match fam {
            0..=4 => {
                // one in five with "infinite" right-hand sides in nonnegative rows (dropped by the presolver
                // when it is on, capped otherwise): the report must be about the rows that remain
                let mut pl = gen::planted(&mut rng, &o);
                if rng.bool(0.2) && crate::c01::plant_inf(&mut pl, &mut rng, bound) > 0 {
                    ctx.bump("instances_with_infinite_bounds");
                }
                pl.problem
            }
            5 | 6 => gen::primal_infeasible(&mut rng, &o).0,
            7 | 8 => gen::dual_infeasible(&mut rng, &o).0,
            _ => {
                // badly scaled planted problem
                let mut p = gen::planted(&mut rng, &o).problem;
                crate::c02::illcondition(&mut p, &mut rng, 4.0);
                p
            }
        };
        // a slice with a large (or tiny) objective: absolute and relative gap criteria then differ by orders of magnitude
        let mut p = p;
        if rng.bool(0.25) {
            let f = 10f64.powf(*rng.choose(&[2.0, 4.0, 6.0, -3.0]));
            for v in p.q.iter_mut() {
                *v *= f;
            }
            for v in p.P.nzval.iter_mut() {
                *v *= f;
            }
            ctx.bump("instances_with_rescaled_objective");
        }
        let mut st = gen::random_settings(&mut rng, true);
        let engineered = rng.usize(0, 9);
        match engineered {
            0 | 1 | 2 => st.max_iter = rng.usize(0, 14) as u32,
            3 => st.time_limit = 0.0,
            4 => {
                // unreachable tolerances: ends in Almost*/InsufficientProgress/MaxIterations
                st.tol_gap_abs = 1e-14;
                st.tol_gap_rel = 1e-14;
                st.tol_feas = 1e-14;
                st.max_iter = *rng.choose(&[30, 60, 200]);
            }
            5 => {
                st.tol_infeas_abs = 1e-13;
                st.tol_infeas_rel = 1e-13;
            }
            _ => {}
        }
        // a quarter of the reports come from a solver object that has been used before: a first solve cut off after
        // one or two iterations leaves a status, objective values and residual figures of its own behind, and the
        // report of the second solve must be about the second solve only
        let reused = rng.bool(0.25);
        let attempt = if reused {
            let mut st1 = st.clone();
            st1.max_iter = *rng.choose(&[1, 2]);
            problem::new_solver(&p, &st1).and_then(|mut solver| {
                problem::solve_observed(&mut solver)?;
                solver.settings.max_iter = st.max_iter;
                let ev = problem::solve_observed(&mut solver)?;
                Ok(problem::extract(&solver, ev))
            })
        } else {
            problem::run(&p, &st)
        };
        if reused {
            ctx.bump("reports_from_a_reused_solver_object");
        }
        let res = match attempt {
            Ok(r) => r,
            Err(msg) => {
                ctx.inconclusive(&format!("panic: {msg}"), wl, case);
                continue;
            }
        };
        ctx.eval(1);
        ctx.bump(&format!("status_{}", status_name(res.status)));
        ctx.nontrivial_hash(p.hash() ^ case);
        let mut fails: Vec<(String, serde_json::Value)> = vec![];
        let pm = presolve_model(&p, &st, &res, bound);
        fails.extend(pm.fails.clone());
        if res.status != res.info_status {
            fails.push(("status_mismatch".into(), json!({"solution": status_name(res.status), "info": status_name(res.info_status)})));
        }
        if res.status == SolverStatus::Unsolved {
            fails.push(("nonterminal_status".into(), json!({})));
        }
        if res.iterations > st.max_iter {
            fails.push(("iterations_exceed_max_iter".into(), json!({"iterations": res.iterations, "max_iter": st.max_iter})));
        }
        let mut idx: Vec<u32> = res.iter_events().map(|e| e.iterations).collect();
        idx.dedup();
        let distinct = {
            let mut d = idx.clone();
            d.sort();
            d.dedup();
            d
        };
        // every index 0..=last is observed once per pass; the reported count is the last observed
        // index, or one more when the final iteration performed its KKT update but took no step
        // (alpha = 0: the solver counts iterations that produce a KKT update)
        let last = distinct.last().copied();
        let contiguous = last.map_or(false, |l| distinct.len() as u32 == l + 1);
        let fe0 = res.final_event();
        let ok_count = match (last, fe0) {
            (Some(l), Some(fe)) => fe.iterations == res.iterations && (res.iterations == l || (res.iterations == l + 1 && fe.step_length == 0.0)),
            _ => false,
        };
        if !contiguous || !ok_count {
            fails.push(("iterations_vs_observed".into(), json!({"reported": res.iterations, "observed_indices": distinct, "final_alpha": fe0.map(|f| f.step_length)})));
        }
        if res.iterations != res.info_iterations {
            fails.push(("iterations_solution_vs_info".into(), json!({"solution": res.iterations, "info": res.info_iterations})));
        }
        let fe = res.final_event().cloned();
        if res.x.len() == p.n() && res.s.len() == p.m() && res.z.len() == p.m() {
            let infeas = is_infeasible_status(res.status);
            // de-homogenised point
            let (x, s, z) = if infeas {
                match &fe {
                    Some(e) if e.τ > 0.0 && e.κ.is_finite() => {
                        let f = e.κ / e.τ;
                        (res.x.iter().map(|v| v * f).collect::<Vec<_>>(), res.s.iter().map(|v| v * f).collect::<Vec<_>>(), res.z.iter().map(|v| v * f).collect::<Vec<_>>())
                    }
                    _ => (res.x.clone(), res.s.clone(), res.z.clone()),
                }
            } else {
                (res.x.clone(), res.s.clone(), res.z.clone())
            };
            let finite = x.iter().chain(&s).chain(&z).all(|v| v.is_finite());
            // a run that ends WITHOUT a verdict after its homogenisation scalars have grown beyond 1e100 (equality-only
            // problems whose delta-tau equation has degenerated, 100+ iterations): products of internal quantities
            // overflow and quotients underflow inside the solver, its figures are NaN or 0.0, and nothing is claimed
            // about them (same kind of limit as the 1e150 one below; a run that DOES reach a verdict is judged in full)
            let internal_overflow = !infeas && !matches!(res.status, SolverStatus::Solved | SolverStatus::AlmostSolved) && fe.as_ref().map(|e| e.τ.max(e.κ) > 1e100).unwrap_or(false);
            if internal_overflow {
                ctx.bump("runs_without_verdict_with_tau_or_kappa_beyond_1e100_(figures_not_judged)");
            }
            if finite && !internal_overflow {
                let ev = kkt::evaluate(&p, &x, &s, &z, &pm.keep, bound, &pm.ceff);
                // (a returned point with entries beyond 1e150 - the garbage initial factorisation of C05's recorded
                // finding, ending NumericalError at iteration 0 - overflows the oracle's own evaluation of the
                // objectives as it does that of the residuals below: nothing recomputed, nothing judged)
                let obj_overflow = !infeas && (!ev.p_obj.is_finite() || !ev.d_obj.is_finite()) && x.iter().chain(&s).chain(&z).fold(0.0f64, |m, v| m.max(v.abs())) > 1e150;
                if obj_overflow {
                    ctx.bump("objective_figures_not_recomputable_(overflow)");
                }
                if !infeas && !obj_overflow {
                    // rounding bound of an f64 evaluation: 8 * [64 u (n+m+3) sum|terms|]
                    let tol = 8.0 * ev.slack_obj + 1e-300;
                    if !((res.obj_val - ev.p_obj).abs() <= tol) {
                        fails.push(("obj_val".into(), json!({"reported": problem::fj(res.obj_val), "recomputed": ev.p_obj, "tol": tol})));
                    }
                    if !((res.obj_val_dual - ev.d_obj).abs() <= tol) {
                        fails.push(("obj_val_dual".into(), json!({"reported": problem::fj(res.obj_val_dual), "recomputed": ev.d_obj, "tol": tol})));
                    }
                    ctx.observe_max("obj_err_over_tol", (res.obj_val - ev.p_obj).abs() / tol);
                } else if infeas && !(res.obj_val.is_nan() && res.obj_val_dual.is_nan()) {
                    fails.push(("objective_not_nan".into(), json!({"obj_val": problem::fj(res.obj_val)})));
                }
                // residual figures (both kinds of status: figures describe the de-homogenised point)
                // the oracle's own evaluation overflows when the returned point has entries beyond ~1e150
                // (tau of order 1e-199 after hundreds of stalled iterations): no recomputation, no judgement
                let huge_point = x.iter().chain(&s).chain(&z).fold(0.0f64, |m, v| m.max(v.abs())) > 1e150;
                let big = huge_point || !(ev.res_p.is_finite() && ev.res_d.is_finite()) || ev.res_p.max(ev.res_d) > 1e200;
                if big {
                    ctx.bump("residual_figures_not_recomputable_(overflow)");
                }
                if !big {
                    let tp = 1e-6 * ev.res_p.max(res.r_prim.abs()) + 16.0 * ev.slack_res_p + 1e-300;
                    let td = 1e-6 * ev.res_d.max(res.r_dual.abs()) + 16.0 * ev.slack_res_d + 1e-300;
                    if !((res.r_prim - ev.res_p).abs() <= tp) {
                        fails.push(("r_prim".into(), json!({"reported": problem::fj(res.r_prim), "recomputed": ev.res_p, "tol": tp, "infeasible_status": infeas})));
                    }
                    if !((res.r_dual - ev.res_d).abs() <= td) {
                        fails.push(("r_dual".into(), json!({"reported": problem::fj(res.r_dual), "recomputed": ev.res_d, "tol": td, "infeasible_status": infeas})));
                    }
                }
                match res.status {
                    SolverStatus::Solved => {
                        for (o, d) in kkt::judge_solved(&ev, st.tol_feas, st.tol_gap_abs, st.tol_gap_rel, 1.0) {
                            fails.push((format!("solved:{o}"), d));
                        }
                    }
                    SolverStatus::AlmostSolved => {
                        for (o, d) in kkt::judge_solved(&ev, st.reduced_tol_feas, st.reduced_tol_gap_abs, st.reduced_tol_gap_rel, 1.0) {
                            fails.push((format!("almost_solved:{o}"), d));
                        }
                        if let Some(e) = &fe {
                            if !(e.κ / e.τ <= 1.0 + 1e-9) {
                                fails.push(("almost_solved:ktratio".into(), json!({"kappa": e.κ, "tau": e.τ})));
                            }
                        }
                    }
                    _ => {}
                }
            }
            if infeas {
                if let Some(e) = &fe {
                    let evc = kkt::evaluate(&p, &res.x, &res.s, &res.z, &pm.keep, bound, &pm.ceff);
                    let almost = matches!(res.status, SolverStatus::AlmostPrimalInfeasible | SolverStatus::AlmostDualInfeasible);
                    let is_p = matches!(res.status, SolverStatus::PrimalInfeasible | SolverStatus::AlmostPrimalInfeasible);
                    let (ta, tr) = if almost { (st.reduced_tol_infeas_abs, st.reduced_tol_infeas_rel) } else { (st.tol_infeas_abs, st.tol_infeas_rel) };
                    for (o, d) in judge_certificate(&evc, is_p, e.κ, res.c, ta, tr) {
                        fails.push((format!("certificate:{o}"), d));
                    }
                }
            }
        }
        // rollback observation: was the returned iterate an earlier one?
        if let Some(e) = &fe {
            let last_it = res.iter_events().last();
            if let Some(l) = last_it {
                if l.τ.to_bits() != e.τ.to_bits() || l.x.iter().zip(&e.x).any(|(a, b)| a.to_bits() != b.to_bits()) {
                    ctx.bump("runs_returning_a_rolled_back_iterate");
                }
            }
        }
        for (oracle, detail) in fails {
            let fej = fe.as_ref().map(|e| json!({"tau": e.τ, "kappa": e.κ, "iterations": e.iterations}));
            ctx.violation(&oracle, &oracle, wl, case, case_json(&p, &st, &res, json!({"check": detail, "final_event": fej})));
        }
        if case < 3 {
            ctx.sample(json!({"workload": wl, "n": p.n(), "m": p.m(), "status": status_name(res.status), "iterations": res.iterations, "obj_val": problem::fj(res.obj_val), "r_prim": problem::fj(res.r_prim)}));
        }
    }
}

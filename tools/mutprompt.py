#!/usr/bin/env python3
"""prints the prompt given to a fresh sub-agent that seeds a property-breaking change"""
import json, sys
pid = sys.argv[1]
wt = sys.argv[2] if len(sys.argv) > 2 else f"/tmp/mut/{pid}"
extra = sys.argv[3] if len(sys.argv) > 3 else ""
import os
prevs = [f"/verif/seeded/{pid}{suf}/meta.json" for suf in ("", "b", "c", "d", "e", "f", "g", "h", "i", "j", "k", "l", "m")]
prevs = [q for q in prevs if os.path.exists(q)]
if prevs and any(f"/mut{k}/" in wt for k in range(2, 30)):
    if "/mut2/" in wt:
        prevs = prevs[:1]
    extra += "\nEarlier volunteers already produced the following changes for the same property:\n"
    for q in prevs:
        pm = json.load(open(q))
        extra += f" - \"{pm.get('summary','')[:420]}\"\n"
    extra += "Produce something DIFFERENT from all of these: another mechanism, another part of the code, another kind of trigger.\n"
extra += "\nIMPORTANT: do NOT use `git stash` (the stash is shared between worktrees and other people are working in sibling worktrees). To test without your change use: `git diff -- src > /tmp/" + pid + "_mine.patch && git checkout -- src && <run demo> ; git apply /tmp/" + pid + "_mine.patch`.\n"
p = next(json.loads(l) for l in open('/verif/properties.jsonl') if json.loads(l)['id'] == pid)
print(f"""You are helping test a verification effort for the Rust crate Clarabel.rs (an interior-point conic solver). You have your own scratch git worktree of the repository at {wt} (a detached checkout; work ONLY inside it; never touch /repo or /verif and do not read /verif).

Here is a semantic property that the code base is supposed to satisfy:

TITLE: {p['title']}
STATEMENT: {p['statement']}
QUANTIFIER: {p['quantifier']['text']}

Your task: produce ONE realistic change to the library source (under {wt}/src) that BREAKS this property, such that
 (1) the crate still compiles (`cd {wt} && cargo build --offline`),
 (2) the existing test suite still passes unchanged (`cd {wt} && cargo test --workspace --offline 2>&1 | grep -E "test result|FAILED"` must show no failures),
 (3) the breakage needs something specific to manifest - a particular input shape or value, an unusual setting, a multi-step sequence of operations, a particular dimension threshold, or two cooperating sites that each look fine alone - NOT something ordinary use would expose at once, and NOT something trivially visible like a panic on every call. Think of the kind of subtle bug a maintainer could plausibly introduce in a refactoring (dropped scaling factor in one branch, off-by-one in an index map for one layout, stale cache after one kind of update, wrong sign in a rarely taken branch, boundary comparison flipped, etc.).
 (4) you provide a demonstration: a small Rust integration test file (placed at {wt}/tests/demo_{pid.lower()}.rs, using only the crate's public API; note `clarabel::solver::core` internals are crate-private, but the repo has an optional cargo feature `verif` exposing `clarabel::verif::*` re-exports of the cone types/traits and some wrappers - you may use it with `--features verif` if you need internals) that FAILS with your change applied and PASSES on the original code. Verify both: run it with your change, then temporarily revert the src change (keep the test), run it again, then re-apply your change.

{extra}
Do not edit any existing test. Do not commit. Keep the source change small (ideally <15 lines). When done, write these files:
 - {wt}/out/patch.diff : output of `git diff -- src` (source change only)
 - {wt}/out/demo.rs : copy of your demonstration test
 - {wt}/out/meta.json : {{"property": "{pid}", "summary": "<one paragraph: what was changed and why it breaks the property>", "needs": "<what specific input/sequence/setting is needed for it to manifest>", "demo_cmd": "<exact command that runs the demo>", "verified": {{"builds": true/false, "existing_tests_pass": true/false, "demo_fails_with_change": true/false, "demo_passes_without_change": true/false}}}}
Leave the source change APPLIED in the worktree when you finish. Be efficient: builds take 1-2 minutes; use `cargo test --offline --test demo_{pid.lower()}` for the demo. Offline only (no network). Report back a 3-line summary.""")

#!/usr/bin/env python3
"""usage: set_meta.py <seed-id> <caught_by comma list> <signatures comma list> [note]  - records how a seeded change was caught"""
import json, sys
sid, cb, sg = sys.argv[1], sys.argv[2].split(','), sys.argv[3].split(',')
p = f'/verif/seeded/{sid}/meta.json'
m = json.load(open(p))
m['caught_by'] = cb
m['signatures'] = sg
m['what_i_ran'] = f"tools/confirm_seed.sh {sid}; tools/try_seed_iso.sh {sid} {' '.join(cb)} (scratch worktree + scratch copy of /verif; ./check <Cxx> quick, flavour mon, VERIF_SEED=1)"
if len(sys.argv) > 4:
    m['note'] = sys.argv[4]
json.dump(m, open(p, 'w'), indent=1)
print('ok', sid)

//! C05 — equivalent formulations, configurations and schedules agree; identical calls are bit-reproducible.
use clarabel::solver::{DefaultSettings, DefaultSolver, IPSolver, SolverStatus};
use serde_json::json;
use std::sync::{Arc, Barrier};
use vkit::cones::{self as vc, cone_dim, cone_ranges, ConeT};
use vkit::dd::{self, DD};
use vkit::dense::Dense;
use vkit::gen::{self, GenOpts};
use vkit::problem::{self, status_name, verdict_class, Problem, SolveResult};
use vkit::{Ctx, Rng};

/// an equivalent formulation together with the maps that carry its solution back
struct Variant {
    p: Problem,
    st: DefaultSettings<f64>,
    /// x_orig[colmap[j]] = x_var[j]
    colmap: Vec<usize>,
    /// s_orig[rowmap[i]] = s_var[i]
    rowmap: Vec<usize>,
    /// objective and dual scaling: obj_orig = obj_var / cscale ; z_orig = z_var / cscale
    cscale: f64,
    tags: Vec<&'static str>,
}

fn dense_to_csc_keep(d: &Dense, pat: &[bool]) -> clarabel::algebra::CscMatrix<f64> {
    d.to_csc_pattern(pat)
}

fn make_variant(rng: &mut Rng, base: &Problem, st0: &DefaultSettings<f64>) -> Variant {
    let (n, m) = (base.n(), base.m());
    let mut tags = vec![];
    let a0 = Dense::from_csc(&base.A);
    let apat0 = Dense::pattern_of(&base.A);
    let p0 = base.P_sym();
    // --- cone blocks: reorder cones, split / merge NN cones, permute rows inside scalar cones and SOC tails
    let ranges = cone_ranges(&base.cones);
    let mut blocks: Vec<(ConeT, Vec<usize>)> = base.cones.iter().cloned().zip(ranges.iter().map(|r| r.clone().collect::<Vec<usize>>())).collect();
    if rng.bool(0.5) {
        // split nonnegative cones
        let mut nb = vec![];
        for (c, rows) in blocks {
            match c {
                ConeT::NonnegativeConeT(k) if k >= 2 && rng.bool(0.7) => {
                    let k1 = rng.usize(1, k - 1);
                    nb.push((ConeT::NonnegativeConeT(k1), rows[..k1].to_vec()));
                    nb.push((ConeT::NonnegativeConeT(k - k1), rows[k1..].to_vec()));
                    tags.push("nn_split");
                }
                _ => nb.push((c, rows)),
            }
        }
        blocks = nb;
    }
    if rng.bool(0.5) && blocks.len() > 1 {
        rng.shuffle(&mut blocks);
        tags.push("cones_reordered");
    }
    if rng.bool(0.5) {
        for (c, rows) in blocks.iter_mut() {
            match c {
                ConeT::NonnegativeConeT(_) | ConeT::ZeroConeT(_) => {
                    rng.shuffle(rows);
                    tags.push("scalar_rows_permuted");
                }
                ConeT::SecondOrderConeT(k) if *k > 2 => {
                    let (_, tail) = rows.split_at_mut(1);
                    rng.shuffle(tail);
                    tags.push("soc_tail_permuted");
                }
                _ => {}
            }
        }
    }
    if rng.bool(0.4) {
        // merge adjacent nonnegative cones
        let mut nb: Vec<(ConeT, Vec<usize>)> = vec![];
        for (c, rows) in blocks {
            if let (Some((ConeT::NonnegativeConeT(k0), r0)), ConeT::NonnegativeConeT(k)) = (nb.last_mut(), &c) {
                *k0 += *k;
                r0.extend(rows);
                tags.push("nn_merged");
            } else {
                nb.push((c, rows));
            }
        }
        blocks = nb;
    }
    let rowmap: Vec<usize> = blocks.iter().flat_map(|(_, r)| r.iter().copied()).collect();
    let cones: Vec<ConeT> = blocks.iter().map(|(c, _)| c.clone()).collect();
    // --- column permutation
    let colmap: Vec<usize> = if rng.bool(0.5) {
        tags.push("columns_permuted");
        rng.perm(n)
    } else {
        (0..n).collect()
    };
    // --- objective scaling
    let cscale = if rng.bool(0.4) {
        tags.push("objective_scaled");
        *rng.choose(&[0.5, 2.0, 10.0, 0.01, 1e6, 1e-6, 1e4])
    } else {
        1.0
    };
    // configuration first (so that the data transformations below can depend on it if ever needed)
    let mut st = st0.clone();
    if rng.bool(0.5) && !base.b.iter().any(|v| *v >= 1e20) {
        st.presolve_enable = !st.presolve_enable;
        tags.push("presolve_toggled");
    }
    if rng.bool(0.4) {
        st.equilibrate_enable = !st.equilibrate_enable;
        tags.push("equilibration_toggled");
    }
    let mut a = Dense::zeros(m, n);
    let mut apat = vec![false; m * n];
    for i in 0..m {
        for j in 0..n {
            a.set(i, j, a0.get(rowmap[i], colmap[j]));
            apat[i * n + j] = apat0[rowmap[i] * n + colmap[j]];
        }
    }
    let mut pd = Dense::zeros(n, n);
    for i in 0..n {
        for j in 0..n {
            pd.set(i, j, cscale * p0.get(colmap[i], colmap[j]));
        }
    }
    let full = rng.bool(0.5);
    tags.push(if full { "P_full" } else { "P_triu" });
    let b: Vec<f64> = (0..m).map(|i| base.b[rowmap[i]]).collect();
    let q: Vec<f64> = (0..n).map(|j| cscale * base.q[colmap[j]]).collect();
    let p = Problem { P: gen::p_to_csc(&pd, full), q, A: dense_to_csc_keep(&a, &apat), b, cones };
    // --- rest of the configuration
    let methods: &[&str] = if cfg!(feature = "faer") { &["qdldl", "auto", "faer"] } else { &["qdldl", "auto"] };
    st.direct_solve_method = rng.choose(methods).to_string();
    st.max_threads = *rng.choose(&[1, 2, 8]);
    Variant { p, st, colmap, rowmap, cscale, tags }
}

struct Mapped {
    status: SolverStatus,
    x: Vec<f64>,
    s: Vec<f64>,
    z: Vec<f64>,
    tags: Vec<&'static str>,
    /// inf-norm of the first observed iterate (x,s,z)/tau, i.e. of the solver's initial point
    init_norm: f64,
    cscale: f64,
    equilibrated: bool,
    /// what the documented optimality test allows the duality gap of THIS run to be, in the units of the
    /// original objective: max(tol_gap_abs, tol_gap_rel * max(1, min(|p|,|d|))) / cscale with the tolerances of the
    /// run's own status (full or reduced) and its own reported objective values
    tol_gap: f64,
}

fn map_back(v: &Variant, r: &SolveResult, n: usize, m: usize) -> Option<Mapped> {
    if r.x.len() != n || r.s.len() != m || r.z.len() != m {
        return None;
    }
    let mut x = vec![0.0; n];
    let mut s = vec![0.0; m];
    let mut z = vec![0.0; m];
    for j in 0..n {
        x[v.colmap[j]] = r.x[j];
    }
    for i in 0..m {
        s[v.rowmap[i]] = r.s[i];
        z[v.rowmap[i]] = r.z[i] / v.cscale;
    }
    let init_norm = r.events.first().map(|e| e.x.iter().chain(&e.s).chain(&e.z).fold(0.0f64, |m, v| if v.is_finite() { m.max(v.abs()) } else { f64::INFINITY })).unwrap_or(0.0);
    let (ga, gr) = if r.status == SolverStatus::Solved { (v.st.tol_gap_abs, v.st.tol_gap_rel) } else { (v.st.reduced_tol_gap_abs, v.st.reduced_tol_gap_rel) };
    let tol_gap = f64::max(ga, gr * f64::max(1.0, f64::min(r.obj_val.abs(), r.obj_val_dual.abs()))) / v.cscale;
    Some(Mapped { status: r.status, x, s, z, tags: v.tags.clone(), init_norm, cscale: v.cscale, equilibrated: v.st.equilibrate_enable, tol_gap })
}

struct Terms {
    p: DD,
    d: DD,
    rp: Vec<DD>,
    rd: Vec<DD>,
    /// sum of the magnitudes of the terms that p and d are made of (what an f64 evaluation of either can lose)
    objmag: f64,
}

fn terms(base: &Problem, a: &Dense, ps: &Dense, mp: &Mapped, bcap: f64) -> Terms {
    let (n, m) = (base.n(), base.m());
    let ax = a.matvec_dd(&mp.x);
    let px = ps.matvec_dd(&mp.x);
    let atz = a.tmatvec_dd(&mp.z);
    let b: Vec<f64> = base.b.iter().map(|v| v.min(bcap)).collect();
    let rp: Vec<DD> = (0..m).map(|i| ax[i] + DD::new(mp.s[i]) - DD::new(b[i])).collect();
    let rd: Vec<DD> = (0..n).map(|j| px[j] + atz[j] + DD::new(base.q[j])).collect();
    let mut xpx = DD::ZERO;
    for j in 0..n {
        xpx = xpx + px[j] * DD::new(mp.x[j]);
    }
    let half = DD::new(0.5);
    let mut objmag = base.q.iter().zip(&mp.x).map(|(u, v)| (u * v).abs()).sum::<f64>() + b.iter().zip(&mp.z).map(|(u, v)| (u * v).abs()).sum::<f64>();
    for j in 0..n {
        for k in 0..n {
            objmag += (ps.get(j, k) * mp.x[j] * mp.x[k]).abs();
        }
    }
    Terms { p: half * xpx + dd::dot(&base.q, &mp.x), d: -dd::dot(&b, &mp.z) - half * xpx, rp, rd, objmag }
}

fn bits_equal(a: &SolveResult, b: &SolveResult) -> bool {
    a.status == b.status
        && a.iterations == b.iterations
        && a.obj_val.to_bits() == b.obj_val.to_bits()
        && a.obj_val_dual.to_bits() == b.obj_val_dual.to_bits()
        && a.x.len() == b.x.len()
        && a.x.iter().zip(&b.x).all(|(p, q)| p.to_bits() == q.to_bits())
        && a.s.iter().zip(&b.s).all(|(p, q)| p.to_bits() == q.to_bits())
        && a.z.iter().zip(&b.z).all(|(p, q)| p.to_bits() == q.to_bits())
}

/// first differing field of two results (for diagnostics)
fn first_difference(a: &SolveResult, b: &SolveResult) -> serde_json::Value {
    if a.status != b.status {
        return json!({"field": "status"});
    }
    if a.iterations != b.iterations {
        return json!({"field": "iterations", "a": a.iterations, "b": b.iterations});
    }
    for (name, u, v) in [("x", &a.x, &b.x), ("s", &a.s, &b.s), ("z", &a.z, &b.z)] {
        for (i, (p, q)) in u.iter().zip(v.iter()).enumerate() {
            if p.to_bits() != q.to_bits() {
                return json!({"field": name, "index": i, "a": problem::fj(*p), "b": problem::fj(*q), "a_bits": format!("{:016x}", p.to_bits()), "b_bits": format!("{:016x}", q.to_bits())});
            }
        }
    }
    json!({"field": "objective", "a": [problem::fj(a.obj_val), problem::fj(a.obj_val_dual)], "b": [problem::fj(b.obj_val), problem::fj(b.obj_val_dual)]})
}

fn base_problem(rng: &mut Rng, small: bool) -> (Problem, &'static str) {
    let mut o = GenOpts { kinds: gen::all_kinds(), ..Default::default() };
    o.nmax = if small { 3 } else { *rng.choose(&[4, 10, 20]) };
    o.mmax = if small { 7 } else { *rng.choose(&[10, 25, 50]) };
    if small {
        o.psd_max = 2;
    }
    match rng.usize(0, 9) {
        0..=6 => {
            // a third of the feasible problems have loose constraints (slacks of size 10..1000 at the planted point)
            // one feasible problem in ten is a symmetric-cone problem with equality rows and loose inequalities: the
            // class that takes the KKT-based initialisation and finds its starting slacks already well inside
            let sym_loose = rng.bool(0.1);
            if sym_loose {
                o.kinds = vec!["NN", "SOC", "Zero", "Zero", "NN"];
            }
            let mut pl = gen::planted_wellposed(rng, &o);
            if sym_loose || rng.bool(0.35) {
                crate::c01::loosen(&mut pl, rng);
            }
            // a slice with extra rows  a_i.x <= b_i  in a nonnegative cone of their own appended to the list, some
            // with an "infinite" right-hand side (vacuous; the presolver removes them and rewrites the cone list - it
            // must do so consistently for every equivalent spelling of that list: cones split, merged, reordered) and
            // some finite and loose (the planted pair stays strictly feasible: q absorbs their small multipliers).
            // Presolve stays on in all variants of such a problem (with presolve off 1e20 is ordinary data, C09/C18)
            if rng.bool(0.15) {
                let (n, m) = (pl.problem.n(), pl.problem.m());
                let k = rng.usize(2, 4);
                let a = Dense::from_csc(&pl.problem.A);
                let mut a2 = Dense::zeros(m + k, n);
                for i in 0..m {
                    for jx in 0..n {
                        a2.set(i, jx, a.get(i, jx));
                    }
                }
                let mut any = false;
                for t in 0..k {
                    let row: Vec<f64> = (0..n).map(|_| if rng.bool(0.6) { rng.range(-1.0, 1.0) } else { 0.0 }).collect();
                    for jx in 0..n {
                        a2.set(m + t, jx, row[jx]);
                    }
                    let ax: f64 = row.iter().zip(&pl.x0).map(|(u, v)| u * v).sum();
                    if rng.bool(0.6) {
                        pl.problem.b.push(*rng.choose(&[1e20, 1e25, 3e21]));
                        any = true;
                    } else {
                        let (zi, si) = (rng.range(0.1, 1.0), rng.range(1.0, 10.0));
                        pl.problem.b.push(ax + si);
                        for jx in 0..n {
                            pl.problem.q[jx] -= row[jx] * zi;
                        }
                    }
                }
                pl.problem.A = a2.to_csc();
                pl.problem.cones.push(ConeT::NonnegativeConeT(k));
                if any {
                    return (pl.problem, "feasible_with_infinite_bounds");
                }
                return (pl.problem, "feasible");
            }
            (pl.problem, "feasible")
        }
        7 | 8 => (gen::primal_infeasible(rng, &o).0, "primal_infeasible"),
        _ => (gen::dual_infeasible(rng, &o).0, "dual_infeasible"),
    }
}

fn w_variants(ctx: &mut Ctx) {
    let wl = "variants";
    let bound = clarabel::get_infinity();
    let total = if ctx.flavour == "miri" { ctx.count(2, 6) } else { ctx.count(320, 4000) };
    let nvar = if ctx.thorough() { 16 } else { 10 };
    for case in ctx.cases(wl, total) {
        if ctx.out_of_budget() {
            continue;
        }
        ctx.begin(wl, case);
        let mut rng = Rng::for_case(ctx.seed, "C05/variants", case);
        let (base, family) = base_problem(&mut rng, ctx.flavour == "miri");
        let (n, m) = (base.n(), base.m());
        let st0 = gen::default_settings();
        let a = Dense::from_csc(&base.A);
        let ps = base.P_sym();
        ctx.nontrivial_hash(base.hash() ^ case);
        ctx.bump(&format!("family_{family}"));
        let mut runs: Vec<(Mapped, Terms)> = vec![];
        let mut no_verdict = 0;
        for vi in 0..nvar {
            let v = if vi == 0 {
                Variant { p: base.clone(), st: st0.clone(), colmap: (0..n).collect(), rowmap: (0..m).collect(), cscale: 1.0, tags: vec!["original"] }
            } else {
                make_variant(&mut rng, &base, &st0)
            };
            let r = match problem::run(&v.p, &v.st) {
                Ok(r) => r,
                Err(msg) => {
                    ctx.violation("variant_panicked", "variant_panicked", wl, case, json!({"base": base.to_json(), "variant_tags": v.tags, "panic": msg}));
                    continue;
                }
            };
            ctx.eval(1);
            for t in &v.tags {
                ctx.bump(&format!("transform_{t}"));
            }
            if verdict_class(r.status) == '-' {
                no_verdict += 1;
                ctx.bump("runs_without_verdict");
                continue;
            }
            if let Some(mp) = map_back(&v, &r, n, m) {
                // consistency of the variant's own reported objective with the mapped-back point
                let t = terms(&base, &a, &ps, &mp, bound);
                if verdict_class(r.status) == 'S' {
                    // the slack terms below charge residuals, not cone membership: a Solved run whose mapped-back
                    // point is outside K x K* (e.g. a nonzero slack on an equality row) must not be argued away by them
                    for (c, rg) in base.cones.iter().zip(vkit::cones::cone_ranges(&base.cones)) {
                        if rg.is_empty() {
                            continue;
                        }
                        let (ms, ss) = vkit::cones::margin(c, &mp.s[rg.clone()], false);
                        let (mz, sz) = vkit::cones::margin(c, &mp.z[rg.clone()], true);
                        let sall = mp.s.iter().fold(ss, |m, v| m.max(v.abs()));
                        let zall = mp.z.iter().fold(sz, |m, v| m.max(v.abs()));
                        if !(ms >= -1e-6 * sall.max(1.0) && mz >= -1e-6 * zall.max(1.0)) {
                            ctx.violation("solved_point_outside_cone", "solved_point_outside_cone", wl, case, json!({"base": base.to_json(), "variant_tags": v.tags, "cone": vkit::cones::cone_name(c), "margin_s": ms, "margin_z": mz, "scale_s": sall, "scale_z": zall}));
                            break;
                        }
                    }
                    let want = t.p.f();
                    let got = r.obj_val / v.cscale;
                    // magnitude of the terms that are summed (linear and quadratic): cancellation among them
                    // bounds the rounding of either evaluation
                    let mut mag = base.q.iter().zip(&mp.x).map(|(a, b)| (a * b).abs()).sum::<f64>();
                    for j in 0..n {
                        for k in 0..n {
                            mag += 0.5 * (ps.get(j, k) * mp.x[j] * mp.x[k]).abs();
                        }
                    }
                    if !((got - want).abs() <= 1e-9 * want.abs().max(1.0) + 1e-9 * mag) {
                        ctx.violation("mapped_back_objective", "mapped_back_objective", wl, case, json!({"base": base.to_json(), "variant_tags": v.tags, "reported_over_c": got, "recomputed_on_original": want}));
                    }
                }
                runs.push((mp, t));
            }
        }
        let _ = no_verdict;
        // verdict classes coincide
        let classes: Vec<char> = runs.iter().map(|(mp, _)| verdict_class(mp.status)).collect();
        if let Some(&c0) = classes.first() {
            if classes.iter().any(|&c| c != c0) {
                let both_infeasible_kinds = classes.iter().all(|&c| c == 'P' || c == 'D');
                if both_infeasible_kinds {
                    // a problem that is both primal and dual infeasible admits either certificate
                    ctx.bump("mixed_P_and_D_verdicts_(observation)");
                } else {
                    let detail: Vec<_> = runs.iter().map(|(mp, _)| json!({"status": status_name(mp.status), "tags": mp.tags, "initial_point_inf_norm": problem::fj(mp.init_norm), "objective_scale": mp.cscale, "equilibrate_enable": mp.equilibrated})).collect();
                    // mechanism: the majority class is the reference; a dissenting run whose *initial point* is
                    // astronomically larger than the data (the initial KKT solve returned garbage) is the
                    // recorded finding "initial_point_blowup"; any other dissent keeps the plain signature
                    let majority = ['S', 'P', 'D'].into_iter().max_by_key(|c| classes.iter().filter(|x| *x == c).count()).unwrap();
                    let data_scale = base.q.iter().chain(base.b.iter().filter(|v| v.abs() < 1e20)).chain(&base.A.nzval).chain(&base.P.nzval).fold(1.0f64, |m, v| m.max(v.abs()));
                    let all_blowup = runs.iter().filter(|(mp, _)| verdict_class(mp.status) != majority).all(|(mp, _)| mp.init_norm > 1e12 * data_scale);
                    // second recorded mechanism: objective rescaled (by more than a factor 2 either way) while equilibration is OFF
                    // (first witnesses at 1e4, 1e6, 1e-6; seed 112 added 0.01 and 10)
                    let all_extreme = runs.iter().filter(|(mp, _)| verdict_class(mp.status) != majority).all(|(mp, _)| !mp.equilibrated && !(0.5..=2.0).contains(&mp.cscale));
                    // third recorded mechanism: equilibration ON, but the objective scale lies beyond what its cost
                    // normalisation may compensate (the factor c is clipped to [equilibrate_min_scaling,
                    // equilibrate_max_scaling] = [1e-4, 1e4]): scales 1e6 / 1e-6 stay 100-fold off
                    let all_beyond_clip = runs.iter().filter(|(mp, _)| verdict_class(mp.status) != majority).all(|(mp, _)| !(2e-5..=5e4).contains(&mp.cscale));
                    let sig = if all_blowup {
                        "verdict_classes_differ:initial_point_blowup"
                    } else if all_extreme {
                        "verdict_classes_differ:extreme_objective_scale_without_equilibration"
                    } else if all_beyond_clip {
                        "verdict_classes_differ:objective_scale_beyond_equilibration_clip"
                    } else {
                        "verdict_classes_differ"
                    };
                    ctx.violation("verdict_classes_differ", sig, wl, case, json!({"base": base.to_json(), "family": family, "runs": detail}));
                }
            }
        }
        // pairwise weak duality and objective agreement among solved runs
        let solved: Vec<&(Mapped, Terms)> = runs.iter().filter(|(mp, _)| verdict_class(mp.status) == 'S').collect();
        let nn = (n + m + 3) as f64;
        'outer: for (i, (mi, ti)) in solved.iter().enumerate() {
            for (j, (mj, tj)) in solved.iter().enumerate() {
                if i == j {
                    continue;
                }
                ctx.eval(1);
                // d_j - p_i <= |r_d^j . x_i| + |r_p^i . z_j| + max(0,-s_i.z_j) + rounding
                let mut rdx = DD::ZERO;
                let mut mag = 0.0;
                for k in 0..n {
                    rdx = rdx + tj.rd[k] * DD::new(mi.x[k]);
                    mag += (tj.rd[k].f() * mi.x[k]).abs();
                }
                let mut rpz = DD::ZERO;
                for k in 0..m {
                    rpz = rpz + ti.rp[k] * DD::new(mj.z[k]);
                    mag += (ti.rp[k].f() * mj.z[k]).abs();
                }
                let sz = dd::dot(&mi.s, &mj.z).f();
                let slack = rdx.f().abs() + rpz.f().abs() + (-sz).max(0.0) + 64.0 * 1.1e-16 * nn * (mag + ti.p.f().abs() + tj.d.f().abs());
                let lhs = (tj.d - ti.p).f();
                ctx.observe_max("weak_duality_excess_over_slack", if slack > 0.0 { lhs / slack } else { 0.0 });
                if !(lhs <= slack * (1.0 + 1e-6) + 1e-300) {
                    ctx.violation("weak_duality_across_runs", "weak_duality_across_runs", wl, case, json!({"base": base.to_json(), "run_i": {"tags": mi.tags, "p": ti.p.f()}, "run_j": {"tags": mj.tags, "d": tj.d.f()}, "d_j_minus_p_i": lhs, "slack": slack}));
                    break 'outer;
                }
                // |p_i - p_j| <= gap_i + delta_ji
                let gap_i = (ti.p - ti.d).f().abs();
                let mut rdx2 = DD::ZERO;
                for k in 0..n {
                    rdx2 = rdx2 + ti.rd[k] * DD::new(mj.x[k]);
                }
                let mut rpz2 = DD::ZERO;
                for k in 0..m {
                    rpz2 = rpz2 + tj.rp[k] * DD::new(mi.z[k]);
                }
                let sz2 = dd::dot(&mj.s, &mi.z).f();
                let delta_ji = rdx2.f().abs() + rpz2.f().abs() + (-sz2).max(0.0);
                let diff = (ti.p - tj.p).f();
                let bound_ij = gap_i + delta_ji + 64.0 * 1.1e-16 * nn * (mag + ti.p.f().abs() + tj.p.f().abs());
                // the same inequality with the gap the documentation ALLOWS run i instead of the one it happens to
                // have: objectives of two solved runs agree to within the documented gap tolerance plus what the
                // residuals can move them (a configuration that quietly loosens its own stopping test shows here)
                if mi.tol_gap.is_finite() {
                    // (the solver tests ITS f64 evaluation of the gap, which can be off by the rounding of the terms the
                    // two objectives are made of - far more than |p| when they cancel)
                    let bound_doc = mi.tol_gap * (1.0 + 1e-6) + delta_ji + 64.0 * 1.1e-16 * nn * (mag + ti.objmag + tj.objmag + ti.p.f().abs() + tj.p.f().abs());
                    ctx.observe_max("objective_difference_over_documented_bound", if bound_doc > 0.0 { diff / bound_doc } else { 0.0 });
                    if !(diff <= bound_doc * (1.0 + 1e-6) + 1e-300) {
                        ctx.violation("objectives_disagree_beyond_documented_gap", "objectives_disagree_beyond_documented_gap", wl, case, json!({"base": base.to_json(), "run_i": {"tags": mi.tags, "p": ti.p.f(), "d": ti.d.f(), "status": status_name(mi.status), "documented_gap_allowance": mi.tol_gap}, "run_j": {"tags": mj.tags, "p": tj.p.f()}, "difference": diff, "bound": bound_doc}));
                        break 'outer;
                    }
                }
                if !(diff <= bound_ij * (1.0 + 1e-6) + 1e-300) {
                    ctx.violation("objectives_disagree", "objectives_disagree", wl, case, json!({"base": base.to_json(), "run_i": {"tags": mi.tags, "p": ti.p.f()}, "run_j": {"tags": mj.tags, "p": tj.p.f()}, "difference": diff, "bound": bound_ij}));
                    break 'outer;
                }
            }
        }
        if case < 2 {
            ctx.sample(json!({"workload": wl, "family": family, "n": n, "m": m, "cones": problem::cones_json(&base.cones), "variants_with_verdict": runs.len(), "example_variant_tags": runs.last().map(|r| r.0.tags.clone())}));
        }
    }
}

/// debugging aid: the repeat workload's case, with traces
pub fn dbg_repeat(seed: u64, case: u64) {
    let mut rng = Rng::for_case(seed, "C05/repeat", case);
    let (p, family) = base_problem(&mut rng, false);
    let mut st = gen::random_settings(&mut rng, true);
    st.time_limit = f64::INFINITY;
    println!("family {family} cones {}", problem::cones_json(&p.cones));
    println!("b {:?}", p.b);
    let mut solver = problem::new_solver(&p, &st).unwrap();
    for k in 0..3 {
        let ev = problem::solve_observed(&mut solver).unwrap();
        let r = problem::extract(&solver, ev);
        println!("solve {k}: status {} iters {}", status_name(r.status), r.iterations);
        for e in r.events.iter() {
            println!("  it {} kind {:?} x {:?}\n     s {:?}\n     z {:?}", e.iterations, e.kind, e.x, e.s, e.z);
        }
        println!("  final s {:?}", r.s);
    }
}

/// debugging aid: re-run the variants of one case and print each run's trace tail
pub fn dbg_variants(seed: u64, case: u64, nvar: usize) {
    let mut rng = Rng::for_case(seed, "C05/variants", case);
    let (base, family) = base_problem(&mut rng, false);
    let st0 = gen::default_settings();
    println!("family {family} n {} m {} cones {}", base.n(), base.m(), problem::cones_json(&base.cones));
    for vi in 0..nvar {
        let v = if vi == 0 {
            Variant { p: base.clone(), st: st0.clone(), colmap: (0..base.n()).collect(), rowmap: (0..base.m()).collect(), cscale: 1.0, tags: vec!["original"] }
        } else {
            make_variant(&mut rng, &base, &st0)
        };
        let r = problem::run(&v.p, &v.st).unwrap();
        println!("variant {vi} tags {:?} cscale {} status {} iters {}", v.tags, v.cscale, status_name(r.status), r.iterations);
        if verdict_class(r.status) != 'S' {
            println!("  problem {}", v.p.to_json());
            for e in r.events.iter() {
                println!("  it {:3} a {:.2e} tau {:.3e} kap {:.3e} mu {:.3e} pc {:.4e} dc {:.4e} pres {:.2e} dres {:.2e} bz {:.3e} qx {:.3e} st {}", e.iterations, e.step_length, e.τ, e.κ, e.μ, e.cost_primal, e.cost_dual, e.res_primal, e.res_dual, e.dot_bz, e.dot_qx, status_name(e.status));
            }
            for meth in ["qdldl", "faer"] {
                let mut stv = v.st.clone();
                stv.direct_solve_method = meth.to_string();
                let r2 = problem::run(&v.p, &stv).unwrap();
                println!("  method {meth}: status {} iters {} (variant used {})", status_name(r2.status), r2.iterations, v.st.direct_solve_method);
                for sr in [true, false] {
                    stv.static_regularization_enable = sr;
                    for dr in [true, false] {
                        stv.dynamic_regularization_enable = dr;
                        let r3 = problem::run(&v.p, &stv).unwrap();
                        println!("     static {sr} dynamic {dr}: {} iters {} mu0 {:.3e}", status_name(r3.status), r3.iterations, r3.events[0].μ);
                    }
                }
            }
            {
                let mut stv = v.st.clone();
                stv.direct_solve_method = "qdldl".into();
                stv.max_iter = 0;
                let mut solver = clarabel::solver::DefaultSolver::new(&v.p.P, &v.p.q, &v.p.A, &v.p.b, &v.p.cones, stv);
                use clarabel::solver::IPSolver;
                solver.solve();
                let snap = solver.kktsystem.verif_snapshot();
                println!("  reg {:e} count {:?}", snap.diagonal_regularizer, snap.engine.regularize_count);
                println!("  D {:?}", snap.engine.D);
                println!("  dsigns {:?}", snap.dsigns);
                println!("  perm {:?}", snap.engine.perm);
                let k = &snap.kkt;
                let diag: Vec<f64> = (0..k.n).map(|j| { let mut d = f64::NAN; for p in k.colptr[j]..k.colptr[j+1] { if k.rowval[p]==j { d = k.nzval[p]; } } d }).collect();
                println!("  kkt diag {:?}", diag);
                println!("  x {:?}", solver.variables.x);
                std::fs::write("/tmp/kkt.json", json!({"n": k.n, "colptr": k.colptr, "rowval": k.rowval, "nzval": k.nzval, "perm": snap.engine.perm, "D": snap.engine.D, "values": snap.engine.values}).to_string()).unwrap();
            }
            if false {
                let mut stv = v.st.clone();
                stv.verbose = true;
                let mut solver = clarabel::solver::DefaultSolver::new(&v.p.P, &v.p.q, &v.p.A, &v.p.b, &v.p.cones, stv);
                use clarabel::solver::IPSolver;
                solver.solve();
            }
            let nz = r.z.iter().fold(0.0f64, |m, x| m.max(x.abs()));
            println!("  |z|inf {nz:.3e} |x|inf {:.3e}", r.x.iter().fold(0.0f64, |m, x| m.max(x.abs())));
        }
    }
}

/// identical calls: same solver solved twice / three times, and two fresh solvers
fn w_repeat(ctx: &mut Ctx) {
    let wl = "repeat";
    let total = if ctx.flavour == "miri" { ctx.count(3, 8) } else { ctx.count(400, 5000) };
    for case in ctx.cases(wl, total) {
        if ctx.out_of_budget() {
            continue;
        }
        ctx.begin(wl, case);
        let mut rng = Rng::for_case(ctx.seed, "C05/repeat", case);
        let (p, family) = base_problem(&mut rng, ctx.flavour == "miri");
        let mut st = gen::random_settings(&mut rng, ctx.flavour != "miri");
        st.time_limit = f64::INFINITY;
        ctx.nontrivial_hash(p.hash() ^ case);
        let mut solver = match problem::new_solver(&p, &st) {
            Ok(s) => s,
            Err(_) => continue,
        };
        let mut results = vec![];
        for _ in 0..3 {
            match problem::solve_observed(&mut solver) {
                Ok(ev) => results.push(problem::extract(&solver, ev)),
                Err(msg) => {
                    ctx.violation("repeat_panicked", "repeat_panicked", wl, case, json!({"problem": p.to_json(), "panic": msg}));
                    break;
                }
            }
        }
        if let Ok(fresh) = problem::run(&p, &st) {
            results.push(fresh);
        }
        ctx.eval(1);
        ctx.bump(&format!("family_{family}"));
        for k in 1..results.len() {
            if !bits_equal(&results[0], &results[k]) {
                let which = if k == results.len() - 1 && results.len() == 4 { "fresh_solver_vs_first_solve" } else { "resolve_on_same_solver" };
                ctx.violation("not_bit_reproducible", &format!("not_bit_reproducible:{which}"), wl, case, json!({"problem": p.to_json(), "settings": problem::settings_json(&st), "which": which, "k": k, "first_difference": first_difference(&results[0], &results[k]),
                    "first": results[0].summary_json(), "other": results[k].summary_json()}));
                break;
            }
        }
        if results.len() == 4 {
            ctx.bump(&format!("repeat_status_{}", status_name(results[0].status)));
        }
    }
}

/// concurrent solver instances on different threads, with a thread flipping the module-level infinity bound
fn w_threads(ctx: &mut Ctx) {
    let wl = "threads";
    let total = if ctx.flavour == "miri" { 0 } else { ctx.count(24, 300) };
    let nthreads = 16usize;
    for case in ctx.cases(wl, total) {
        if ctx.out_of_budget() {
            continue;
        }
        ctx.begin(wl, case);
        let mut rng = Rng::for_case(ctx.seed, "C05/threads", case);
        // a mix of identical and different problems
        let ndistinct = rng.usize(2, 6);
        let mut pool = vec![];
        for _ in 0..ndistinct {
            // (no "infinite" right-hand sides here: a sibling thread flips the module-level bound while these
            // solvers are being built, on purpose, and which rows count as infinite would depend on the schedule)
            let p = loop {
                let (p, _) = base_problem(&mut rng, false);
                if !p.b.iter().any(|v| *v >= 1e20) {
                    break p;
                }
            };
            let mut st = gen::random_settings(&mut rng, true);
            st.time_limit = f64::INFINITY;
            st.presolve_enable = true;
            pool.push((p, st));
        }
        // sequential references (bound at its default)
        clarabel::default_infinity();
        let refs: Vec<Option<SolveResult>> = pool.iter().map(|(p, st)| problem::run(p, st).ok()).collect();
        let assign: Vec<usize> = (0..nthreads).map(|_| rng.usize(0, ndistinct - 1)).collect();
        let delays: Vec<(u64, u64, u64)> = (0..nthreads).map(|_| (rng.usize(0, 300) as u64, rng.usize(0, 300) as u64, rng.usize(0, 300) as u64)).collect();
        let barrier = Arc::new(Barrier::new(nthreads + 1));
        let stop = Arc::new(std::sync::atomic::AtomicBool::new(false));
        let pool = Arc::new(pool);
        let order = Arc::new(std::sync::Mutex::new(Vec::<(usize, u8)>::new()));
        let mut handles = vec![];
        for t in 0..nthreads {
            let (pool, barrier, order) = (pool.clone(), barrier.clone(), order.clone());
            let idx = assign[t];
            let (d1, d2, d3) = delays[t];
            handles.push(std::thread::spawn(move || {
                let (p, st) = &pool[idx];
                barrier.wait();
                spin(d1);
                let mut solver = DefaultSolver::new(&p.P, &p.q, &p.A, &p.b, &p.cones, st.clone());
                order.lock().unwrap().push((t, 0));
                spin(d2);
                std::thread::yield_now();
                solver.solve();
                order.lock().unwrap().push((t, 1));
                spin(d3);
                let r = problem::extract(&solver, vec![]);
                order.lock().unwrap().push((t, 2));
                r
            }));
        }
        // the flipper: both values are far above every |b| of these problems
        let stop2 = stop.clone();
        let barrier2 = barrier.clone();
        let flipper = std::thread::spawn(move || {
            barrier2.wait();
            let mut k = 0u64;
            while !stop2.load(std::sync::atomic::Ordering::Relaxed) {
                clarabel::set_infinity(if k % 2 == 0 { 1e25 } else { 1e20 });
                k += 1;
                std::thread::yield_now();
            }
            clarabel::default_infinity();
            k
        });
        let mut outs = vec![];
        let mut panicked = false;
        for h in handles {
            match h.join() {
                Ok(r) => outs.push(Some(r)),
                Err(_) => {
                    panicked = true;
                    outs.push(None)
                }
            }
        }
        stop.store(true, std::sync::atomic::Ordering::Relaxed);
        let flips = flipper.join().unwrap_or(0);
        clarabel::default_infinity();
        ctx.eval(1);
        ctx.nontrivial_n(1);
        ctx.bump_n("bound_flips_during_concurrent_solves", flips);
        // distinct interleavings = distinct orders of (construct, solve, read) events across threads
        let ord = order.lock().unwrap().clone();
        let mut h = vkit::report::hash_new();
        vkit::report::hash_usizes(&mut h, &ord.iter().map(|(t, e)| t * 3 + *e as usize).collect::<Vec<_>>());
        ctx.bump(&format!("interleaving_{:016x}", h));
        if panicked {
            ctx.violation("thread_panicked", "thread_panicked", wl, case, json!({"problems": ndistinct}));
        }
        for (t, o) in outs.iter().enumerate() {
            if let (Some(o), Some(r)) = (o, &refs[assign[t]]) {
                if !bits_equal(o, r) {
                    let (p, st) = &pool[assign[t]];
                    ctx.violation("concurrent_result_differs_from_sequential", "concurrent_result_differs_from_sequential", wl, case, json!({"problem": p.to_json(), "settings": problem::settings_json(st), "thread": t,
                        "concurrent": o.summary_json(), "sequential": r.summary_json()}));
                    break;
                }
            }
        }
        if case < 1 {
            ctx.sample(json!({"workload": wl, "threads": nthreads, "distinct_problems": ndistinct, "event_order": ord.iter().take(24).collect::<Vec<_>>(), "bound_flips": flips}));
        }
    }
    // collapse the per-interleaving counters into one number
    let keys: Vec<String> = ctx.counters.keys().filter(|k| k.starts_with("interleaving_")).cloned().collect();
    let distinct = keys.len() as u64;
    for k in keys {
        ctx.counters.remove(&k);
    }
    if distinct > 0 {
        ctx.bump_n("distinct_thread_interleavings_observed_(this_shard)", distinct);
    }
}

fn spin(units: u64) {
    let mut x = 0u64;
    for i in 0..units * 200 {
        x = x.wrapping_add(i).rotate_left(3);
    }
    std::hint::black_box(x);
}

pub fn run(ctx: &mut Ctx) {
    if ctx.flavour == "tsan" {
        w_threads(ctx);
        return;
    }
    w_variants(ctx);
    w_repeat(ctx);
    w_threads(ctx);
    let _ = (vc::total_dim(&[]), cone_dim(&ConeT::ZeroConeT(0)));
}

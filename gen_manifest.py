#!/usr/bin/env python3
"""Regenerates MANIFEST.json from plan.py (claimed checks) and the fixed property list."""
import json, subprocess, os
from plan import PLAN
ALL = [f"C{i:02d}" for i in range(1, 21)]
hooks = subprocess.run(["git", "-C", "/repo", "log", "--format=%h %s"], capture_output=True, text=True).stdout.splitlines()
hook_commits = [l.split()[0] for l in hooks if l.split(" ", 1)[1].startswith("verif hooks")]
checks = []
for p in ALL:
    if p not in PLAN or PLAN[p].get("disabled"):
        continue
    pl = PLAN[p]
    checks.append({
        "property_id": p,
        "quick_cmd": f"./check {p} quick",
        "thorough_cmd": f"./check {p} thorough",
        "evidence_file": f"evidence/{p}.json",
        "replay_cmd_template": f"./check {p} --replay {{path}}",
        "engine": "vcheck",
        "level_claimed": {"category": "exploration", "text": pl.get("level_text", "held on the executions observed: " + pl["rule"]),
                          "design_ref": pl.get("design_ref", f"DESIGN.md section 4, {p}")},
        "level_note": "; ".join(pl["assumptions"]),
        "technique": pl.get("technique", "runtime monitoring: reference-model oracle over generated workloads + sanitizers"),
    })
na = [{"property_id": p, "reason": PLAN.get(p, {}).get("disabled", "check not implemented yet in this framework (work in progress); the design in DESIGN.md applies runtime monitoring to it")}
      for p in ALL if p not in PLAN or PLAN[p].get("disabled")]
m = {
    "version": 1,
    "setup_cmd": "./setup.sh",
    "hooks": {
        "guard": "cargo feature `verif` of the clarabel crate (off by default)",
        "enable": "the harness workspace /verif/harness depends on clarabel = { path = \"/repo\", features = [\"serde\",\"verif\",\"faer-sparse\",\"sdp-r\"] } and patches blas-src/lapack-src with the pure-Rust stubs in harness/stubs",
        "baseline_off_cmd": "cd /repo && cargo test --workspace --no-fail-fast --offline",
        "source_commits": hook_commits,
        "add_only": True,
    },
    "engines": [
        {"name": "vcheck", "path": "harness/vcheck", "serves_properties": [c["property_id"] for c in checks],
         "kind_free_text": "Rust harness binary: one module per property; generators + oracles from harness/vkit; run as sharded subprocesses by ./check"},
        {"name": "check", "path": "check", "serves_properties": [c["property_id"] for c in checks],
         "kind_free_text": "python driver: rebuilds /repo with hooks on, runs shards under watchdogs in mon/rel/asan/miri/tsan flavours, merges, applies known_findings.json, writes evidence"},
        {"name": "refblas", "path": "harness/stubs", "serves_properties": [p for p in ["C01","C02","C03","C04","C05","C07","C09","C13","C15","C17","C18","C19","C20"] if p in PLAN],
         "kind_free_text": "pure-Rust reference BLAS/LAPACK (safe slices with contract lengths) patched in for blas-src/lapack-src so PSD code builds offline and runs under Miri/ASan"},
    ],
    "checks": checks,
    "not_applicable": na,
    "notes": "All checks are runtime monitors: oracles observing executions of the real code under generated workloads, repeated under Miri / ASan / TSan where stated. VERIF_SEED selects the PRNG stream; VERIF_BUDGET_S overrides per-run budgets.",
}
json.dump(m, open(os.path.join(os.path.dirname(os.path.abspath(__file__)), "MANIFEST.json"), "w"), indent=1)
print("claimed:", [c["property_id"] for c in checks])

//! Truncated Taylor polynomials a0 + a1 t + a2 t^2 + a3 t^3 over double-double:
//! exact (to ~1e-30) directional derivatives up to order three of functions written
//! with + - * / ln exp powf sqrt.  Used to differentiate the harness's own barrier
//! definitions; no finite differences anywhere.

use crate::dd::DD;
use std::ops::{Add, Div, Mul, Neg, Sub};

#[derive(Clone, Copy, Debug)]
pub struct Jet3 {
    pub c: [DD; 4],
}

impl Jet3 {
    pub fn constant(x: f64) -> Jet3 {
        Jet3 { c: [DD::new(x), DD::ZERO, DD::ZERO, DD::ZERO] }
    }
    pub fn cdd(x: DD) -> Jet3 {
        Jet3 { c: [x, DD::ZERO, DD::ZERO, DD::ZERO] }
    }
    /// the variable x + t*d
    pub fn var(x: f64, d: f64) -> Jet3 {
        Jet3 { c: [DD::new(x), DD::new(d), DD::ZERO, DD::ZERO] }
    }
    pub fn recip(self) -> Jet3 {
        // b = 1/a : b0 = 1/a0 ; bk = -(1/a0) sum_{j=1..k} a_j b_{k-j}
        let a = self.c;
        let b0 = DD::ONE / a[0];
        let mut b = [b0, DD::ZERO, DD::ZERO, DD::ZERO];
        for k in 1..4 {
            let mut s = DD::ZERO;
            for j in 1..=k {
                s = s + a[j] * b[k - j];
            }
            b[k] = -(b0 * s);
        }
        Jet3 { c: b }
    }
    pub fn ln(self) -> Jet3 {
        // y = ln a :  y' = a'/a  => k y_k = (1/a0) (k a_k - sum_{j=1}^{k-1} j y_j a_{k-j})
        let a = self.c;
        let mut y = [a[0].ln(), DD::ZERO, DD::ZERO, DD::ZERO];
        for k in 1..4 {
            let mut s = a[k] * DD::new(k as f64);
            for j in 1..k {
                s = s - DD::new(j as f64) * y[j] * a[k - j];
            }
            y[k] = s / (a[0] * DD::new(k as f64));
        }
        Jet3 { c: y }
    }
    pub fn exp(self) -> Jet3 {
        // y = exp a : y' = a' y => k y_k = sum_{j=1}^{k} j a_j y_{k-j}
        let a = self.c;
        let mut y = [a[0].exp(), DD::ZERO, DD::ZERO, DD::ZERO];
        for k in 1..4 {
            let mut s = DD::ZERO;
            for j in 1..=k {
                s = s + DD::new(j as f64) * a[j] * y[k - j];
            }
            y[k] = s / DD::new(k as f64);
        }
        Jet3 { c: y }
    }
    /// a^p for a constant exponent p (a0 > 0)
    pub fn powf(self, p: f64) -> Jet3 {
        (self.ln() * Jet3::constant(p)).exp()
    }
    pub fn sqrt(self) -> Jet3 {
        self.powf(0.5)
    }
    pub fn value(&self) -> f64 {
        self.c[0].f()
    }
}

impl Neg for Jet3 {
    type Output = Jet3;
    fn neg(self) -> Jet3 {
        Jet3 { c: [-self.c[0], -self.c[1], -self.c[2], -self.c[3]] }
    }
}
impl Add for Jet3 {
    type Output = Jet3;
    fn add(self, o: Jet3) -> Jet3 {
        Jet3 { c: [self.c[0] + o.c[0], self.c[1] + o.c[1], self.c[2] + o.c[2], self.c[3] + o.c[3]] }
    }
}
impl Sub for Jet3 {
    type Output = Jet3;
    fn sub(self, o: Jet3) -> Jet3 {
        self + (-o)
    }
}
impl Mul for Jet3 {
    type Output = Jet3;
    fn mul(self, o: Jet3) -> Jet3 {
        let (a, b) = (self.c, o.c);
        let mut c = [DD::ZERO; 4];
        for k in 0..4 {
            let mut s = DD::ZERO;
            for j in 0..=k {
                s = s + a[j] * b[k - j];
            }
            c[k] = s;
        }
        Jet3 { c }
    }
}
impl Div for Jet3 {
    type Output = Jet3;
    fn div(self, o: Jet3) -> Jet3 {
        self * o.recip()
    }
}

/// derivatives of a scalar function f: R^n -> R given as a closure on jets
pub struct Deriv<'a> {
    pub f: &'a dyn Fn(&[Jet3]) -> Jet3,
    pub x: Vec<f64>,
}

impl Deriv<'_> {
    fn along(&self, d: &[f64]) -> Jet3 {
        let v: Vec<Jet3> = self.x.iter().zip(d).map(|(x, di)| Jet3::var(*x, *di)).collect();
        (self.f)(&v)
    }
    pub fn value(&self) -> f64 {
        self.along(&vec![0.0; self.x.len()]).value()
    }
    pub fn gradient(&self) -> Vec<f64> {
        let n = self.x.len();
        (0..n)
            .map(|i| {
                let mut d = vec![0.0; n];
                d[i] = 1.0;
                self.along(&d).c[1].f()
            })
            .collect()
    }
    /// dense Hessian (row-major n*n)
    pub fn hessian(&self) -> Vec<f64> {
        let n = self.x.len();
        let mut diag = vec![DD::ZERO; n];
        for i in 0..n {
            let mut d = vec![0.0; n];
            d[i] = 1.0;
            diag[i] = self.along(&d).c[2]; // = 1/2 H_ii
        }
        let mut h = vec![0.0; n * n];
        for i in 0..n {
            h[i * n + i] = (diag[i] + diag[i]).f();
            for j in 0..i {
                let mut d = vec![0.0; n];
                d[i] = 1.0;
                d[j] = 1.0;
                // a2(e_i+e_j) = 1/2 (H_ii + H_jj + 2 H_ij)
                let v = self.along(&d).c[2] - diag[i] - diag[j];
                h[i * n + j] = v.f();
                h[j * n + i] = v.f();
            }
        }
        h
    }
    /// the vector w_k = sum_ij T_ijk u_i v_j for the symmetric third-derivative tensor T
    pub fn third_contract(&self, u: &[f64], v: &[f64]) -> Vec<f64> {
        self.third_contract_scaled(u, v, &vec![1.0; self.x.len()])
    }
    /// same, with the k-th probe direction taken as `scale[k] * e_k` (and the result divided by it):
    /// choosing scale[k] ~ |x_k| keeps the three directions of the polarisation identity comparable
    /// in size, which avoids the cancellation of huge cubic terms when x is tiny or huge
    pub fn third_contract_scaled(&self, u: &[f64], v: &[f64], scale: &[f64]) -> Vec<f64> {
        let n = self.x.len();
        let mut out = vec![0.0; n];
        for k in 0..n {
            let mut acc = DD::ZERO;
            for (e2, e3) in [(1.0, 1.0), (1.0, -1.0), (-1.0, 1.0), (-1.0, -1.0)] {
                // directions are sums of f64s: keep them exact by forming them in double-double
                let jets: Vec<Jet3> = (0..n)
                    .map(|i| {
                        let di = DD::new(u[i]) + DD::new(e2 * v[i]) + if i == k { DD::new(e3 * scale[k]) } else { DD::ZERO };
                        Jet3 { c: [DD::new(self.x[i]), di, DD::ZERO, DD::ZERO] }
                    })
                    .collect();
                let a3 = (self.f)(&jets).c[3];
                acc = acc + DD::new(e2 * e3) * a3;
            }
            // T(u,v,e_k) = (1/24) sum eps2 eps3 C(.) with C = 6 a3  => (1/4) sum eps2 eps3 a3
            out[k] = (acc * DD::new(0.25) / DD::new(scale[k])).f();
        }
        out
    }
}

#[cfg(test)]
mod tests {
    use super::*;
    #[test]
    fn closed_forms() {
        // f(x,y) = x^2 y + ln(x) * exp(y) / sqrt(x+y)
        let f = |v: &[Jet3]| {
            let (x, y) = (v[0], v[1]);
            x * x * y + x.ln() * y.exp() / (x + y).sqrt()
        };
        let d = Deriv { f: &f, x: vec![1.3, 0.7] };
        let g = d.gradient();
        // finite-difference-free check: compare against hand derivatives
        let (x, y) = (1.3f64, 0.7f64);
        let r = (x + y).sqrt();
        let gx = 2.0 * x * y + y.exp() / (x * r) - 0.5 * x.ln() * y.exp() / (r * r * r);
        let gy = x * x + x.ln() * y.exp() / r - 0.5 * x.ln() * y.exp() / (r * r * r);
        assert!((g[0] - gx).abs() < 1e-13 && (g[1] - gy).abs() < 1e-13);
        // cubic form check: f(x)=x^3 => T=6
        let c = |v: &[Jet3]| v[0] * v[0] * v[0] + v[0] * v[1] * v[1];
        let dc = Deriv { f: &c, x: vec![2.0, -1.0] };
        let t = dc.third_contract(&[1.0, 0.0], &[1.0, 0.0]);
        assert!((t[0] - 6.0).abs() < 1e-25 && t[1].abs() < 1e-25);
        let t = dc.third_contract(&[0.0, 1.0], &[0.0, 1.0]);
        assert!((t[0] - 2.0).abs() < 1e-25);
        let h = dc.hessian();
        assert!((h[0] - 12.0).abs() < 1e-25 && (h[1] + 2.0).abs() < 1e-25 && (h[3] - 4.0).abs() < 1e-25);
    }
}

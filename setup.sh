#!/bin/sh
# Builds the verification framework offline from files on disk, self-tests the trusted base,
# and pre-builds the sanitizer flavours so that checks do not pay for them.
set -e
cd "$(dirname "$0")"
export CARGO_NET_OFFLINE=true
( cd harness && cargo test -q -p refla -p vkit --profile mon 2>&1 | tail -15 )
./check build mon rel
# oracle-of-the-oracle self tests (dd, jets, cone predicates, refblas identities)
./target/mon/vcheck selftest --tier quick --seed 1 --shard 0/1 --out target/work/selftest.json
python3 - <<'PY'
import json,sys
d=json.load(open('target/work/selftest.json'))
print("selftest evaluations=%d violations=%d"%(d["evaluations"],d["violation_count"]))
sys.exit(1 if d["violation_count"] else 0)
PY
# sanitizer flavours (best effort: thorough tiers rebuild them on demand anyway)
./check build miri || echo "miri pre-build failed (non-fatal)"
./check build asan || echo "asan pre-build failed (non-fatal)"
echo "setup done"

//! vcheck: one binary, one module per property.
//!   vcheck <Cxx|selftest> --tier quick|thorough --seed S --shard i/N --out FILE
//!          [--flavour mon|rel|asan|miri|tsan] [--scale F] [--budget SECS]
//!          [--replay WORKLOAD:CASE]
#![allow(non_snake_case)]
#![allow(clippy::needless_range_loop)]
#![allow(clippy::too_many_arguments)]
#![allow(clippy::type_complexity)]

use vkit::Ctx;

mod c01;
mod c02;
mod c03;
mod c04;
mod c05;
mod c06;
mod c07;
mod c08;
mod c09;
mod c10;
mod c19;
mod c20;
mod common;
mod dbg;
mod c11;
mod c12;
mod c13;
mod c14;
mod c15;
mod c16;
#[cfg(feature = "sdp")]
mod c17;
#[cfg(feature = "sdp")]
mod c18;
mod selftest;

fn usage() -> ! {
    eprintln!("usage: vcheck <Cxx|selftest> --tier T --seed S --shard i/N --out FILE [--flavour F] [--scale X] [--budget S] [--replay W:C]");
    std::process::exit(2);
}

fn main() {
    let args: Vec<String> = std::env::args().collect();
    if args.len() < 2 {
        usage();
    }
    let prop = args[1].clone();
    let mut tier = "quick".to_string();
    let mut seed = 1u64;
    let (mut shard, mut nshards) = (0u64, 1u64);
    let mut out: Option<String> = None;
    let mut flavour = "mon".to_string();
    let mut scale = 1.0f64;
    let mut budget = 1e9f64;
    let mut replay: Option<(String, u64)> = None;
    let mut i = 2;
    while i < args.len() {
        let a = args[i].as_str();
        let v = args.get(i + 1).cloned();
        match a {
            "--tier" => tier = v.unwrap_or_else(|| usage()),
            "--seed" => seed = v.and_then(|s| s.parse().ok()).unwrap_or_else(|| usage()),
            "--shard" => {
                let s = v.unwrap_or_else(|| usage());
                let mut it = s.split('/');
                shard = it.next().and_then(|x| x.parse().ok()).unwrap_or_else(|| usage());
                nshards = it.next().and_then(|x| x.parse().ok()).unwrap_or_else(|| usage());
            }
            "--out" => out = v,
            "--flavour" => flavour = v.unwrap_or_else(|| usage()),
            "--scale" => scale = v.and_then(|s| s.parse().ok()).unwrap_or_else(|| usage()),
            "--budget" => budget = v.and_then(|s| s.parse().ok()).unwrap_or_else(|| usage()),
            "--replay" => {
                let s = v.unwrap_or_else(|| usage());
                let (w, c) = s.rsplit_once(':').unwrap_or_else(|| usage());
                replay = Some((w.to_string(), c.parse().unwrap_or_else(|_| usage())));
            }
            _ => usage(),
        }
        i += 2;
    }
    let mut ctx = Ctx::new(&prop, &tier, seed, shard, nshards);
    ctx.flavour = flavour;
    ctx.scale = scale;
    ctx.budget_s = budget;
    ctx.replay = replay;
    ctx.out_path = out.clone();

    match prop.as_str() {
        "selftest" => selftest::run(&mut ctx),
        "dbg" => dbg::run(&mut ctx),
        "C01" => c01::run(&mut ctx),
        "C02" => c02::run(&mut ctx),
        "C03" => c03::run(&mut ctx),
        "C07" => c07::run(&mut ctx),
        "C08" => c08::run(&mut ctx),
        "C09" => c09::run(&mut ctx),
        "C05" => c05::run(&mut ctx),
        "C06" => c06::run(&mut ctx),
        "C04" => c04::run(&mut ctx),
        "C10" => c10::run(&mut ctx),
        "C11" => c11::run(&mut ctx),
        "C12" => c12::run(&mut ctx),
        "C19" => c19::run(&mut ctx),
        "C20" => c20::run(&mut ctx),
        "C20child" => {
            let (mode, case) = ctx.replay.clone().expect("C20child needs --replay mode:case");
            c20::child(ctx.seed, case, mode == "verbose");
            return;
        }
        "C13" => c13::run(&mut ctx),
        "C14" => c14::run(&mut ctx),
        "C15" => c15::run(&mut ctx),
        "C16" => c16::run(&mut ctx),
        #[cfg(feature = "sdp")]
        "C17" => c17::run(&mut ctx),
        #[cfg(feature = "sdp")]
        "C18" => c18::run(&mut ctx),
        _ => {
            eprintln!("unknown property {prop}");
            std::process::exit(2);
        }
    }

    let js = ctx.to_json();
    let text = serde_json::to_string(&js).unwrap();
    match out {
        Some(p) => std::fs::write(&p, text).expect("cannot write shard report"),
        None => println!("{text}"),
    }
    eprintln!(
        "DONE {} shard {}/{} evaluations={} nontrivial={} violations={}",
        ctx.property, ctx.shard, ctx.nshards, ctx.evaluations, ctx.nontrivial, ctx.violation_count
    );
}

//! C10 — equilibration is an exact, bounded, cone-preserving change of variables.
use clarabel::solver::DefaultSolver;
use serde_json::json;
use vkit::cones::*;
use vkit::dense::Dense;
use vkit::gen::{self, GenOpts};
use vkit::problem::{self, Problem};
use vkit::report::catch;
use vkit::{Ctx, Rng};

const U: f64 = 1.1102230246251565e-16;

fn rel_ulps(got: f64, want: f64) -> f64 {
    if got == want {
        return 0.0;
    }
    (got - want).abs() / (f64::EPSILON * want.abs().max(got.abs()).max(f64::MIN_POSITIVE))
}

fn torture(rng: &mut Rng, p: &mut Problem) {
    // rows / columns over up to 30 decades, zero rows/cols, single huge entry, empty P
    let (m, n) = (p.m(), p.n());
    let dec = *rng.choose(&[3.0, 8.0, 15.0]);
    let mut a = Dense::from_csc(&p.A);
    let rs: Vec<f64> = (0..m).map(|_| if rng.bool(0.15) { 0.0 } else { rng.logpos(-dec, dec) }).collect();
    let cs: Vec<f64> = (0..n).map(|_| if rng.bool(0.1) { 0.0 } else { rng.logpos(-dec, dec) }).collect();
    for i in 0..m {
        for j in 0..n {
            a.set(i, j, a.get(i, j) * rs[i] * cs[j]);
        }
    }
    if m > 0 && rng.bool(0.2) {
        a.set(rng.usize(0, m - 1), rng.usize(0, n - 1), 1e25);
    }
    p.A = a.to_csc();
    for i in 0..m {
        p.b[i] *= if rs[i] == 0.0 { 1.0 } else { rs[i] };
    }
    if rng.bool(0.3) {
        p.P = clarabel::algebra::CscMatrix::zeros((n, n));
    } else {
        let mut pd = p.P_sym();
        for i in 0..n {
            for j in 0..n {
                pd.set(i, j, pd.get(i, j) * cs[i] * cs[j]);
            }
        }
        p.P = gen::p_to_csc(&pd, rng.bool(0.4));
    }
    for j in 0..n {
        p.q[j] *= if cs[j] == 0.0 { 1.0 } else { cs[j] };
    }
    if rng.bool(0.1) {
        for v in p.q.iter_mut() {
            *v = 0.0;
        }
    }
}

pub fn run(ctx: &mut Ctx) {
    let wl = "constructions";
    let bound = clarabel::get_infinity();
    let total = if ctx.flavour == "miri" { ctx.count(40, 150) } else { ctx.count(4000, 60000) };
    for case in ctx.cases(wl, total) {
        if ctx.out_of_budget() {
            continue;
        }
        ctx.begin(wl, case);
        let mut rng = Rng::for_case(ctx.seed, "C10/constructions", case);
        let mut o = GenOpts { kinds: gen::all_kinds(), ..Default::default() };
        if ctx.flavour == "miri" {
            o.nmax = 4;
            o.mmax = 9;
            o.psd_max = 2;
        } else {
            o.nmax = *rng.choose(&[3, 8, 20]);
            o.mmax = *rng.choose(&[8, 20, 50]);
        }
        let mut p = gen::planted(&mut rng, &o).problem;
        let tortured = rng.bool(0.6);
        if tortured {
            torture(&mut rng, &mut p);
        }
        if rng.bool(0.1) && p.m() > 0 {
            let i = rng.usize(0, p.m() - 1);
            p.b[i] = 1e30; // capped (presolve is off in this check)
        }
        let mut st = gen::default_settings();
        st.presolve_enable = false;
        st.equilibrate_enable = rng.bool(0.85);
        st.equilibrate_max_iter = *rng.choose(&[0, 1, 2, 3, 5, 10, 14, 20]);
        let (mut lo, mut hi) = *rng.choose(&[(1e-4, 1e4), (1e-2, 1e2), (1.0, 1.0), (1e-8, 1e8), (1e-1, 1e3)]);
        // "all equilibrate_* settings": intervals that do not contain 1 (every factor has to move away from the
        // identity scaling).  Two clauses of the property contradict each other there for all-zero rows and columns
        // ("left unscaled" = 1 is outside the interval), so those entries are exempt from both in this slice, and
        // at least one Ruiz pass is requested (with none, nothing is scaled at all)
        let excl = rng.bool(0.15);
        if excl {
            (lo, hi) = *rng.choose(&[(2.0, 8.0), (0.01, 0.5), (3.0, 3.0), (1.5, 1e4), (1e-4, 0.75)]);
            if st.equilibrate_max_iter == 0 {
                st.equilibrate_max_iter = *rng.choose(&[1, 2, 10]);
            }
            ctx.bump("scaling_intervals_not_containing_1");
        }
        st.equilibrate_min_scaling = lo;
        st.equilibrate_max_scaling = hi;
        let st2 = st.clone();
        let p2 = p.clone();
        let solver = match catch(std::panic::AssertUnwindSafe(move || DefaultSolver::new(&p2.P, &p2.q, &p2.A, &p2.b, &p2.cones, st2))) {
            Ok(s) => s,
            Err(msg) => {
                ctx.violation("construction_panic", "construction_panic", wl, case, json!({"problem": p.to_json(), "settings": problem::settings_json(&st), "panic": msg}));
                continue;
            }
        };
        ctx.eval(1);
        ctx.nontrivial_hash(p.hash() ^ case);
        let data = &solver.data;
        let eq = &data.equilibration;
        let (n, m) = (p.n(), p.m());
        let mut fail: Option<(String, serde_json::Value)> = None;
        let mut bad = |o: &str, d: serde_json::Value| {
            if fail.is_none() {
                fail = Some((o.to_string(), d));
            }
        };
        if eq.d.len() != n || eq.e.len() != m || eq.dinv.len() != n || eq.einv.len() != m || data.n != n || data.m != m {
            bad("sizes", json!({"d": eq.d.len(), "e": eq.e.len()}));
        } else {
            // positivity, inverses, bounds
            let (zero_col, zero_row): (Vec<bool>, Vec<bool>) = {
                let ad0 = Dense::from_csc(&p.A);
                let ps0 = p.P_sym();
                ((0..n).map(|j| (0..m).all(|i| ad0.get(i, j) == 0.0) && (0..n).all(|i| ps0.get(i, j) == 0.0)).collect(), (0..m).map(|i| (0..n).all(|j| ad0.get(i, j) == 0.0)).collect())
            };
            let ulps = 8.0 + 4.0 * st.equilibrate_max_iter as f64;
            for (name, v, vi) in [("d", &eq.d, &eq.dinv), ("e", &eq.e, &eq.einv)] {
                for k in 0..v.len() {
                    if !(v[k].is_finite() && v[k] > 0.0) {
                        bad("scaling_not_positive_finite", json!({"vector": name, "k": k, "value": problem::fj(v[k])}));
                    }
                    if rel_ulps(vi[k] * v[k], 1.0) > 2.0 {
                        bad("inverse_mismatch", json!({"vector": name, "k": k, "v": v[k], "vinv": vi[k]}));
                    }
                    let exempt = excl && v[k] == 1.0 && if name == "d" { zero_col[k] } else { zero_row[k] };
                    if st.equilibrate_enable && !exempt && !(v[k] >= lo * (1.0 - 4.0 * U) && v[k] <= hi * (1.0 + 4.0 * U)) {
                        bad("scaling_out_of_bounds", json!({"vector": name, "k": k, "value": v[k], "min": lo, "max": hi}));
                    }
                }
            }
            if !(eq.c.is_finite() && eq.c > 0.0) {
                bad("scaling_not_positive_finite", json!({"vector": "c", "value": problem::fj(eq.c)}));
            }
            // (the objective is "left unscaled" too when P or q is entirely zero: same exemption in the slice of
            // intervals that exclude 1)
            let c_exempt = excl && eq.c == 1.0 && (p.P.nzval.iter().all(|v| *v == 0.0) || p.q.iter().all(|v| *v == 0.0));
            if st.equilibrate_enable && !c_exempt && !(eq.c >= lo * (1.0 - 4.0 * U) && eq.c <= hi * (1.0 + 4.0 * U)) {
                bad("scaling_out_of_bounds", json!({"vector": "c", "value": eq.c, "min": lo, "max": hi}));
            }
            // model data: P triu, b capped
            let pt = p.P.to_triu();
            let bm: Vec<f64> = p.b.iter().map(|v| v.min(bound)).collect();
            if data.P.colptr != pt.colptr || data.P.rowval != pt.rowval || data.A.colptr != p.A.colptr || data.A.rowval != p.A.rowval {
                bad("sparsity_pattern_changed", json!({}));
            } else if !st.equilibrate_enable {
                let same = data.P.nzval.iter().zip(&pt.nzval).all(|(a, b)| a.to_bits() == b.to_bits())
                    && data.A.nzval.iter().zip(&p.A.nzval).all(|(a, b)| a.to_bits() == b.to_bits())
                    && data.q.iter().zip(&p.q).all(|(a, b)| a.to_bits() == b.to_bits())
                    && data.b.iter().zip(&bm).all(|(a, b)| a.to_bits() == b.to_bits())
                    && eq.d.iter().all(|v| *v == 1.0)
                    && eq.e.iter().all(|v| *v == 1.0)
                    && eq.c == 1.0;
                if !same {
                    bad("disabled_but_data_touched", json!({"c": eq.c}));
                }
                ctx.bump("equilibration_disabled");
            } else {
                let mut worst = 0.0f64;
                for j in 0..n {
                    for k in pt.colptr[j]..pt.colptr[j + 1] {
                        let i = pt.rowval[k];
                        let want = eq.c * eq.d[i] * pt.nzval[k] * eq.d[j];
                        let u = rel_ulps(data.P.nzval[k], want);
                        worst = worst.max(u);
                        if u > ulps && want.is_finite() {
                            bad("P_entry", json!({"i": i, "j": j, "got": data.P.nzval[k], "want": want, "ulps": u}));
                        }
                    }
                    for k in p.A.colptr[j]..p.A.colptr[j + 1] {
                        let i = p.A.rowval[k];
                        let want = eq.e[i] * p.A.nzval[k] * eq.d[j];
                        let u = rel_ulps(data.A.nzval[k], want);
                        worst = worst.max(u);
                        if u > ulps && want.is_finite() {
                            bad("A_entry", json!({"i": i, "j": j, "got": data.A.nzval[k], "want": want, "ulps": u}));
                        }
                    }
                    let want = eq.c * eq.d[j] * p.q[j];
                    let u = rel_ulps(data.q[j], want);
                    worst = worst.max(u);
                    if u > ulps && want.is_finite() {
                        bad("q_entry", json!({"j": j, "got": data.q[j], "want": want, "ulps": u}));
                    }
                }
                for i in 0..m {
                    let want = eq.e[i] * bm[i];
                    let u = rel_ulps(data.b[i], want);
                    worst = worst.max(u);
                    if u > ulps && want.is_finite() {
                        bad("b_entry", json!({"i": i, "got": data.b[i], "want": want, "ulps": u}));
                    }
                }
                ctx.observe_max("worst_entry_error_ulps", worst);
                // zero columns of [P;A] unscaled; zero rows of A in scalar cones unscaled
                let ad = Dense::from_csc(&p.A);
                let ps = p.P_sym();
                for j in 0..n {
                    let zero = (0..m).all(|i| ad.get(i, j) == 0.0) && (0..n).all(|i| ps.get(i, j) == 0.0);
                    if zero {
                        ctx.bump("zero_columns_seen");
                        if eq.d[j] != 1.0 && !excl {
                            bad("zero_column_scaled", json!({"j": j, "d": eq.d[j]}));
                        }
                    }
                }
                for (c, r) in p.cones.iter().zip(cone_ranges(&p.cones)) {
                    let scalar = matches!(c, ConeT::ZeroConeT(_) | ConeT::NonnegativeConeT(_)) || vkit::kkt::is_singleton_nonneg(c);
                    if scalar {
                        for i in r {
                            if (0..n).all(|j| ad.get(i, j) == 0.0) {
                                ctx.bump("zero_rows_in_scalar_cones_seen");
                                if eq.e[i] != 1.0 && !excl {
                                    bad("zero_row_scaled", json!({"i": i, "e": eq.e[i]}));
                                }
                            }
                        }
                    } else if r.len() > 0 {
                        let mx = eq.e[r.clone()].iter().fold(0.0f64, |a, b| a.max(*b));
                        let mn = eq.e[r.clone()].iter().fold(f64::INFINITY, |a, b| a.min(*b));
                        ctx.bump("nonscalar_cones_seen");
                        if !(mx / mn <= 1.0 + 8.0 * U) {
                            bad("e_not_uniform_in_cone", json!({"cone": cone_name(c), "max": mx, "min": mn}));
                        }
                    }
                }
            }
        }
        if tortured {
            ctx.bump("torture_instances");
        }
        let clean = fail.is_none();
        if let Some((o, d)) = fail {
            ctx.violation(&o, &o, wl, case, json!({"problem": p.to_json(), "settings": problem::settings_json(&st), "check": d, "c": eq.c, "d": eq.d, "e": eq.e}));
        }
        if case < 2 {
            ctx.sample(json!({"workload": wl, "n": n, "m": m, "tortured": tortured, "max_iter": st.equilibrate_max_iter, "bounds": [lo, hi], "c": eq.c, "d_range": [eq.d.iter().cloned().fold(f64::INFINITY, f64::min), eq.d.iter().cloned().fold(0.0, f64::max)]}));
        }
        // ---- the same entry equations must still hold after in-place data updates (all four targets, full
        // and (index,value) forms): the scaling vectors stay what they were, the data follow the user's values
        if !clean || !st.equilibrate_enable || eq.d.len() != n || eq.e.len() != m {
            continue;
        }
        let mut solver = solver;
        let mut model = p.clone();
        model.P = p.P.to_triu();
        let mut log = vec![];
        let mut rejected = false;
        // entries rewritten by an update carry one scaling product (tight tolerance); the others keep the
        // rounding of the iterative construction
        let mut touched: std::collections::HashSet<(char, usize)> = Default::default();
        for _ in 0..rng.usize(1, 3) {
            let target = *rng.choose(&['P', 'A', 'q', 'b']);
            let cur: Vec<f64> = match target {
                'P' => model.P.nzval.clone(),
                'A' => model.A.nzval.clone(),
                'q' => model.q.clone(),
                _ => model.b.iter().map(|v| v.min(bound)).collect(),
            };
            if cur.is_empty() {
                continue;
            }
            let partial = rng.bool(0.5);
            let idx: Vec<usize> = if partial { (0..rng.usize(1, cur.len().min(5))).map(|_| rng.usize(0, cur.len() - 1)).collect() } else { (0..cur.len()).collect() };
            let mag = *rng.choose(&[1.0, 1.0, 1e3, 1e-3]);
            let vals: Vec<f64> = idx.iter().map(|&i| if cur[i].abs() < 1e15 { cur[i] * rng.range(0.5, 1.5) + mag * rng.range(-1.0, 1.0) } else { cur[i] }).collect();
            let res = catch(std::panic::AssertUnwindSafe(|| {
                if partial {
                    let tup = (idx.clone(), vals.clone());
                    match target {
                        'P' => solver.update_P(&tup).map_err(|e| format!("{e:?}")),
                        'A' => solver.update_A(&tup).map_err(|e| format!("{e:?}")),
                        'q' => solver.update_q(&tup).map_err(|e| format!("{e:?}")),
                        _ => solver.update_b(&tup).map_err(|e| format!("{e:?}")),
                    }
                } else {
                    match target {
                        'P' => solver.update_P(&vals).map_err(|e| format!("{e:?}")),
                        'A' => solver.update_A(&vals).map_err(|e| format!("{e:?}")),
                        'q' => solver.update_q(&vals).map_err(|e| format!("{e:?}")),
                        _ => solver.update_b(&vals).map_err(|e| format!("{e:?}")),
                    }
                }
            }));
            log.push(json!({"target": target.to_string(), "partial": partial, "index": if partial { json!(idx) } else { json!(null) }, "values": vals}));
            match res {
                Ok(Ok(())) => {
                    for (t, &i) in idx.iter().enumerate() {
                        touched.insert((target, i));
                        match target {
                            'P' => model.P.nzval[i] = vals[t],
                            'A' => model.A.nzval[i] = vals[t],
                            'q' => model.q[i] = vals[t],
                            _ => model.b[i] = vals[t],
                        }
                    }
                }
                _ => {
                    // refusals are C08's subject; stop the history here
                    rejected = true;
                    break;
                }
            }
        }
        if rejected || log.is_empty() {
            ctx.bump("update_histories_skipped");
            continue;
        }
        ctx.eval(1);
        ctx.bump("update_histories_checked");
        let data = &solver.data;
        let eq = &data.equilibration;
        let mut fail: Option<(String, serde_json::Value)> = None;
        let loose = 8.0 + 4.0 * st.equilibrate_max_iter as f64;
        let tol = |t: char, i: usize| if touched.contains(&(t, i)) { 8.0 } else { loose };
        for j in 0..n {
            for k in model.P.colptr[j]..model.P.colptr[j + 1] {
                let i = model.P.rowval[k];
                let want = eq.c * eq.d[i] * model.P.nzval[k] * eq.d[j];
                if rel_ulps(data.P.nzval[k], want) > tol('P', k) && want.is_finite() && fail.is_none() {
                    fail = Some(("P_entry:after_update".into(), json!({"i": i, "j": j, "got": data.P.nzval[k], "want": want})));
                }
            }
            for k in model.A.colptr[j]..model.A.colptr[j + 1] {
                let i = model.A.rowval[k];
                let want = eq.e[i] * model.A.nzval[k] * eq.d[j];
                if rel_ulps(data.A.nzval[k], want) > tol('A', k) && want.is_finite() && fail.is_none() {
                    fail = Some(("A_entry:after_update".into(), json!({"i": i, "j": j, "got": data.A.nzval[k], "want": want})));
                }
            }
            let want = eq.c * eq.d[j] * model.q[j];
            if rel_ulps(data.q[j], want) > tol('q', j) && want.is_finite() && fail.is_none() {
                fail = Some(("q_entry:after_update".into(), json!({"j": j, "got": data.q[j], "want": want})));
            }
        }
        for i in 0..m {
            let want = eq.e[i] * model.b[i].min(bound);
            if rel_ulps(data.b[i], want) > tol('b', i) && want.is_finite() && fail.is_none() {
                fail = Some(("b_entry:after_update".into(), json!({"i": i, "got": data.b[i], "want": want})));
            }
        }
        if let Some((o, d)) = fail {
            ctx.violation(&o, &o, wl, case, json!({"problem": p.to_json(), "settings": problem::settings_json(&st), "updates": log, "check": d, "c": eq.c, "d": eq.d, "e": eq.e}));
        }
    }
}

//! helpers shared by the solver-level checks
use clarabel::solver::DefaultSettings;
use serde_json::{json, Value};
use vkit::cones::ConeT;
use vkit::kkt::{self, KktEval};
use vkit::problem::{self, Problem, SolveResult};

pub struct PresolveModel {
    pub drop: Vec<bool>,
    pub keep: Vec<bool>,
    pub ceff: Vec<ConeT>,
    pub fails: Vec<(String, Value)>,
}

/// model of the infinite-bound presolve for a finished solve (bound = value in force at construction)
pub fn presolve_model(p: &Problem, st: &DefaultSettings<f64>, res: &SolveResult, bound: f64) -> PresolveModel {
    let m = p.m();
    let (drop0, dontcare) = if st.presolve_enable { kkt::predicted_dropped(&p.cones, &p.b, bound) } else { (vec![false; m], vec![false; m]) };
    let drop: Vec<bool> = (0..m)
        .map(|i| drop0[i] || (st.presolve_enable && dontcare[i] && !drop0[i] && res.s.len() == m && res.s[i] == bound && res.z[i] == 0.0 && p.b[i] >= bound * (1.0 - 1e-14) && false))
        .collect();
    // singleton SOC/PSD rows at/above the bound: accept either reading by looking at what the solver did
    let mut drop = drop;
    let mut model_count = drop.iter().filter(|&&d| d).count();
    let actual = m.saturating_sub(res.data_m);
    if model_count != actual && st.presolve_enable {
        for i in 0..m {
            if dontcare[i] && res.s.len() == m {
                let looks_dropped = res.s[i] == bound && res.z[i] == 0.0;
                if drop[i] != looks_dropped && p.b[i] >= bound * (1.0 - 1e-14) {
                    drop[i] = looks_dropped;
                }
            }
        }
        model_count = drop.iter().filter(|&&d| d).count();
    }
    let mut fails = vec![];
    if res.x.len() != p.n() || res.s.len() != m || res.z.len() != m {
        fails.push(("lengths".to_string(), json!({"x": res.x.len(), "s": res.s.len(), "z": res.z.len(), "n": p.n(), "m": m})));
    }
    #[cfg(feature = "sdp")]
    let chordal = st.chordal_decomposition_enable;
    #[cfg(not(feature = "sdp"))]
    let chordal = false;
    if !chordal && model_count != actual {
        fails.push(("dropped_count".to_string(), json!({"model": model_count, "solver": actual})));
    }
    if res.s.len() == m {
        for i in 0..m {
            if drop[i] && !(res.s[i] == bound && res.z[i] == 0.0) {
                fails.push(("dropped_row_values".to_string(), json!({"row": i, "s": res.s[i], "z": res.z[i], "bound": bound})));
                break;
            }
        }
    }
    let keep: Vec<bool> = drop.iter().map(|d| !d).collect();
    let ceff = kkt::effective_cones(&p.cones, &drop);
    PresolveModel { drop, keep, ceff, fails }
}

pub fn eval_with_model(p: &Problem, res: &SolveResult, pm: &PresolveModel, bound: f64) -> KktEval {
    kkt::evaluate(p, &res.x, &res.s, &res.z, &pm.keep, bound, &pm.ceff)
}

pub fn events_brief(res: &SolveResult) -> Value {
    Value::Array(
        res.events
            .iter()
            .map(|e| {
                json!({"kind": format!("{:?}", e.kind), "it": e.iterations, "tau": e.τ, "kappa": e.κ, "alpha": e.step_length, "pcost": problem::fj(e.cost_primal),
                       "dcost": problem::fj(e.cost_dual), "pres": problem::fj(e.res_primal), "dres": problem::fj(e.res_dual), "ktratio": problem::fj(e.ktratio), "status": problem::status_name(e.status)})
            })
            .collect(),
    )
}

pub fn case_json(p: &Problem, st: &DefaultSettings<f64>, res: &SolveResult, extra: Value) -> Value {
    json!({"problem": p.to_json(), "settings": problem::settings_json(st), "result": res.full_json(), "oracle_detail": extra, "events": events_brief(res)})
}

/// Re-evaluation of the documented infeasibility test on the returned certificate, using the
/// final kappa (observer) and the public equilibration constant c.
/// Returns refuted conditions. `primal` selects the PrimalInfeasible test.
pub fn judge_certificate(ev: &KktEval, primal: bool, kappa: f64, c: f64, tol_abs: f64, tol_rel: f64) -> Vec<(String, Value)> {
    let mut out = vec![];
    let f = 1.0 + 1e-6;
    if primal {
        if !(ev.z_margin >= -1e-12) {
            out.push(("cert_z_not_in_Kstar".into(), json!({"relative_margin": ev.z_margin, "cone": ev.z_worst_cone})));
        }
        // (sign tests carry the rounding bound of an f64 evaluation too: with terms of size 1e18 cancelling to O(1) the
        // sign of the exact sum is below the noise of the solver's own arithmetic)
        if !(ev.bz < ev.slack_bz) {
            out.push(("cert_bz_not_negative".into(), json!({"bz": ev.bz})));
        }
        let dot_bz = kappa * c * ev.bz;
        if !(dot_bz < -tol_abs / f + kappa * c * ev.slack_bz) {
            out.push(("cert_bz_abs_test".into(), json!({"kappa*c*b'z": dot_bz, "tol_infeas_abs": tol_abs})));
        }
        let lhs = kappa * ev.atz_norm / f64::max(1.0, kappa * ev.normz);
        let rhs = -tol_rel * dot_bz;
        let slack = kappa * ev.slack_atz / f64::max(1.0, kappa * ev.normz) + tol_rel * kappa * c * ev.slack_bz;
        if !(lhs <= rhs * f + slack) {
            out.push(("cert_Atz_rel_test".into(), json!({"res_primal_inf": lhs, "bound": rhs, "slack": slack})));
        }
    } else {
        if !(ev.s_margin >= -1e-12) {
            out.push(("cert_s_not_in_K".into(), json!({"relative_margin": ev.s_margin, "cone": ev.s_worst_cone})));
        }
        if !(ev.qx < ev.slack_qx) {
            out.push(("cert_qx_not_negative".into(), json!({"qx": ev.qx})));
        }
        let dot_qx = kappa * c * ev.qx;
        if !(dot_qx < -tol_abs / f + kappa * c * ev.slack_qx) {
            out.push(("cert_qx_abs_test".into(), json!({"kappa*c*q'x": dot_qx, "tol_infeas_abs": tol_abs})));
        }
        let t1 = c * kappa * ev.px_norm / f64::max(1.0, kappa * ev.normx);
        let t2 = kappa * ev.axs_norm / f64::max(1.0, kappa * (ev.normx + ev.norms));
        let lhs = f64::max(t1, t2);
        let rhs = -tol_rel * dot_qx;
        let slack = c * kappa * ev.slack_px / f64::max(1.0, kappa * ev.normx) + kappa * ev.slack_axs / f64::max(1.0, kappa * (ev.normx + ev.norms)) + tol_rel * kappa * c * ev.slack_qx;
        if !(lhs <= rhs * f + slack) {
            out.push(("cert_Px_Axs_rel_test".into(), json!({"res_dual_inf": lhs, "Px_term": t1, "Axs_term": t2, "bound": rhs, "slack": slack})));
        }
    }
    out
}

//! C11 — the assembled KKT system is the intended matrix, for every cone layout.
use clarabel::algebra::CscMatrix;
use clarabel::verif::{assemble_kkt, CompositeCone, Cone, KktMapDump, MatrixTriangle};
use serde_json::json;
use std::collections::HashSet;
use vkit::cones::{self as vc, cone_dim, cone_ranges, ConeT};
use vkit::dense::{is_canonical_csc, Dense};
use vkit::gen::{self, GenOpts};
use vkit::problem;
use vkit::{Ctx, Rng};

fn csc_json(c: &CscMatrix<f64>) -> serde_json::Value {
    problem::csc_json(c)
}

fn coords(k: &CscMatrix<f64>) -> Vec<(usize, usize)> {
    let mut v = vec![(0, 0); k.nnz()];
    for j in 0..k.n {
        for p in k.colptr[j]..k.colptr[j + 1] {
            v[p] = (k.rowval[p], j);
        }
    }
    v
}

fn is_sparse_soc(c: &ConeT) -> bool {
    matches!(c, ConeT::SecondOrderConeT(d) if *d > 4)
}
fn is_genpow(c: &ConeT) -> bool {
    matches!(c, ConeT::GenPowerConeT(_, _))
}
fn hs_diagonal(c: &ConeT) -> bool {
    matches!(c, ConeT::ZeroConeT(_) | ConeT::NonnegativeConeT(_)) || is_sparse_soc(c) || is_genpow(c)
}

/// oracle A: structure of the assembled matrix and its index maps
fn check_assembly(p: &CscMatrix<f64>, a: &CscMatrix<f64>, cones: &[ConeT], k: &CscMatrix<f64>, map: &KktMapDump, triu: bool) -> Option<(String, serde_json::Value)> {
    let (m, n) = (a.m, a.n);
    let pdim: usize = cones.iter().map(|c| if is_sparse_soc(c) { 2 } else if is_genpow(c) { 3 } else { 0 }).sum();
    let dim = n + m + pdim;
    if k.m != dim || k.n != dim {
        return Some(("dimension".into(), json!({"got": [k.m, k.n], "want": dim})));
    }
    if !is_canonical_csc(k) {
        return Some(("not_canonical".into(), json!({})));
    }
    let co = coords(k);
    for &(r, c) in &co {
        if (triu && r > c) || (!triu && r < c) {
            return Some(("entry_in_wrong_triangle".into(), json!({"coord": [r, c]})));
        }
    }
    let orient = |r: usize, c: usize| if triu { (r.min(c), r.max(c)) } else { (r.max(c), r.min(c)) };
    let mut used: HashSet<usize> = HashSet::new();
    let mut claim = |idx: usize, what: &str| -> Option<(String, serde_json::Value)> {
        if idx >= k.nnz() {
            return Some(("map_index_out_of_range".into(), json!({"map": what, "index": idx})));
        }
        if !used.insert(idx) {
            return Some(("map_indices_overlap".into(), json!({"map": what, "index": idx})));
        }
        None
    };
    // P
    if map.P.len() != p.nnz() || map.A.len() != a.nnz() {
        return Some(("map_length".into(), json!({"P": map.P.len(), "A": map.A.len()})));
    }
    let pc = coords(p);
    for (t, &(r, c)) in pc.iter().enumerate() {
        let idx = map.P[t];
        if let Some(e) = claim(idx, "P") {
            return Some(e);
        }
        if co[idx] != orient(r, c) || k.nzval[idx].to_bits() != p.nzval[t].to_bits() {
            return Some(("P_entry_misplaced".into(), json!({"entry": t, "P_coord": [r, c], "K_coord": co[idx], "K_value": k.nzval[idx], "P_value": p.nzval[t]})));
        }
    }
    let ac = coords(a);
    for (t, &(r, c)) in ac.iter().enumerate() {
        let idx = map.A[t];
        if let Some(e) = claim(idx, "A") {
            return Some(e);
        }
        if co[idx] != orient(n + r, c) || k.nzval[idx].to_bits() != a.nzval[t].to_bits() {
            return Some(("A_entry_misplaced".into(), json!({"entry": t, "A_coord": [r, c], "K_coord": co[idx]})));
        }
    }
    // Hs blocks
    let mut hptr = 0;
    let mut pcol = n + m;
    let mut sparse_i = 0;
    for (c, r) in cones.iter().zip(cone_ranges(cones)) {
        let d = cone_dim(c);
        let s0 = n + r.start;
        if hs_diagonal(c) {
            for t in 0..d {
                let idx = *map.Hsblocks.get(hptr + t)?;
                if let Some(e) = claim(idx, "Hsblocks") {
                    return Some(e);
                }
                if co[idx] != (s0 + t, s0 + t) {
                    return Some(("Hs_diagonal_misplaced".into(), json!({"cone": vc::cone_name(c), "t": t, "K_coord": co[idx]})));
                }
            }
            hptr += d;
        } else {
            // packed dense triangle, column-major upper: packed index <-> (r<=c)
            let mut t = 0;
            for cc in 0..d {
                for rr in 0..=cc {
                    let idx = *map.Hsblocks.get(hptr + t)?;
                    if let Some(e) = claim(idx, "Hsblocks") {
                        return Some(e);
                    }
                    if co[idx] != orient(s0 + rr, s0 + cc) {
                        return Some(("Hs_dense_misplaced".into(), json!({"cone": vc::cone_name(c), "packed_index": t, "block_coord": [rr, cc], "K_coord": co[idx], "triu": triu})));
                    }
                    t += 1;
                }
            }
            hptr += d * (d + 1) / 2;
        }
        if is_sparse_soc(c) || is_genpow(c) {
            let sm = map.sparse_maps.get(sparse_i)?;
            let ds = map.sparse_dsigns.get(sparse_i)?;
            let (vecs, spans): (Vec<&Vec<usize>>, Vec<(usize, usize)>) = if is_sparse_soc(c) {
                // [u, v, D] : two dense vectors over the whole cone
                (vec![&sm[0], &sm[1]], vec![(0, d), (0, d)])
            } else {
                let d1 = if let ConeT::GenPowerConeT(al, _) = c { al.len() } else { 0 };
                // [p, q, r, D] : p over the whole cone, q over the first dim1 rows, r over the rest
                (vec![&sm[0], &sm[1], &sm[2]], vec![(0, d), (0, d1), (d1, d)])
            };
            let pd = vecs.len();
            // each vector occupies its own auxiliary column/row within pcol..pcol+pd
            let mut aux_used = HashSet::new();
            for (v, &(lo, hi)) in vecs.iter().zip(&spans) {
                if v.len() != hi - lo {
                    return Some(("sparse_vector_length".into(), json!({"cone": vc::cone_name(c), "got": v.len(), "want": hi - lo})));
                }
                let mut aux: Option<usize> = None;
                for (t, &idx) in v.iter().enumerate() {
                    if let Some(e) = claim(idx, "sparse_vector") {
                        return Some(e);
                    }
                    let (rk, ck) = co[idx];
                    let (conerow, auxpos) = if triu { (rk, ck) } else { (ck, rk) };
                    if conerow != s0 + lo + t || auxpos < pcol || auxpos >= pcol + pd {
                        return Some(("sparse_vector_misplaced".into(), json!({"cone": vc::cone_name(c), "t": t, "K_coord": [rk, ck], "expected_cone_row": s0 + lo + t, "aux_range": [pcol, pcol + pd]})));
                    }
                    if let Some(a0) = aux {
                        if a0 != auxpos {
                            return Some(("sparse_vector_split_over_aux".into(), json!({"cone": vc::cone_name(c)})));
                        }
                    }
                    aux = Some(auxpos);
                }
                if let Some(a0) = aux {
                    if !aux_used.insert(a0) {
                        return Some(("sparse_vectors_share_aux".into(), json!({"cone": vc::cone_name(c)})));
                    }
                }
            }
            let dmap = &sm[pd];
            if dmap.len() != pd || ds.len() != pd {
                return Some(("sparse_D_length".into(), json!({})));
            }
            for (t, &idx) in dmap.iter().enumerate() {
                if let Some(e) = claim(idx, "sparse_D") {
                    return Some(e);
                }
                if co[idx] != (pcol + t, pcol + t) {
                    return Some(("sparse_D_misplaced".into(), json!({"t": t, "K_coord": co[idx]})));
                }
            }
            pcol += pd;
            sparse_i += 1;
        }
    }
    if hptr != map.Hsblocks.len() {
        return Some(("Hsblocks_length".into(), json!({"got": map.Hsblocks.len(), "want": hptr})));
    }
    // diagonal indices
    if map.diag_full.len() != dim || map.diagP.len() != n {
        return Some(("diag_map_length".into(), json!({})));
    }
    for i in 0..dim {
        let idx = map.diag_full[i];
        if idx >= k.nnz() || co[idx] != (i, i) {
            return Some(("diag_full_wrong".into(), json!({"i": i, "index": idx})));
        }
        if i < n && map.diagP[i] != idx {
            return Some(("diagP_wrong".into(), json!({"i": i})));
        }
    }
    // everything not claimed is a structural-zero diagonal fill of the P block
    for idx in 0..k.nnz() {
        if !used.contains(&idx) {
            let (r, c) = co[idx];
            if !(r == c && r < n && k.nzval[idx] == 0.0) {
                return Some(("unmapped_entry".into(), json!({"index": idx, "coord": [r, c], "value": k.nzval[idx]})));
            }
        }
    }
    None
}

fn random_triu(rng: &mut Rng, n: usize) -> CscMatrix<f64> {
    let mut d = Dense::zeros(n, n);
    let mut pat = vec![false; n * n];
    let style = rng.usize(0, 3);
    for j in 0..n {
        for i in 0..=j {
            let on = match style {
                0 => false,
                1 => i == j,
                2 => rng.bool(0.4) && i != j,
                _ => rng.bool(0.5),
            };
            if on {
                pat[i * n + j] = true;
                d.set(i, j, rng.range(1.0, 2.0) * if rng.bool(0.5) { 1.0 } else { -1.0 });
            }
        }
    }
    d.to_csc_pattern(&pat)
}

fn w_assembly(ctx: &mut Ctx) {
    let wl = "assembly";
    let total = if ctx.flavour == "miri" { ctx.count(60, 300) } else { ctx.count(3000, 40000) };
    for case in ctx.cases(wl, total) {
        if ctx.out_of_budget() {
            continue;
        }
        if case % 64 == 0 || ctx.flavour == "miri" {
            ctx.begin(wl, case);
        }
        let mut rng = Rng::for_case(ctx.seed, "C11/assembly", case);
        let mut o = GenOpts { kinds: gen::all_kinds(), allow_empty_cones: false, ..Default::default() };
        o.mmax = if ctx.flavour == "miri" { 14 } else { 40 };
        o.psd_max = 4;
        let cones: Vec<ConeT> = gen::random_cone_list(&mut rng, &o).into_iter().filter(|c| !vkit::kkt::is_singleton_nonneg(c)).collect();
        if cones.is_empty() {
            continue;
        }
        let m = vc::total_dim(&cones);
        let n = rng.usize(1, 8);
        let p = random_triu(&mut rng, n);
        let dens = *rng.choose(&[0.1, 0.4, 1.0]);
        let a = gen::random_sparse(&mut rng, m, n, dens, 0.0, 0.3).to_csc();
        let comp = CompositeCone::<f64>::new(&cones);
        // the two layouts describe ONE symmetric matrix: every logical entry (the t-th entry of P, of A, of an Hs
        // block, of a sparse-expansion vector, of an auxiliary diagonal) sits at mirrored coordinates in them
        {
            let both = vkit::report::catch(std::panic::AssertUnwindSafe(|| (assemble_kkt(&p, &a, &comp, MatrixTriangle::Triu), assemble_kkt(&p, &a, &comp, MatrixTriangle::Tril))));
            if let Ok(((ku, mu), (kl, ml))) = both {
                ctx.eval(1);
                let (cu, cl) = (coords(&ku), coords(&kl));
                let mut lists: Vec<(String, &Vec<usize>, &Vec<usize>)> = vec![("P".into(), &mu.P, &ml.P), ("A".into(), &mu.A, &ml.A), ("Hsblocks".into(), &mu.Hsblocks, &ml.Hsblocks), ("diag_full".into(), &mu.diag_full, &ml.diag_full)];
                for (ci, (su, sl)) in mu.sparse_maps.iter().zip(&ml.sparse_maps).enumerate() {
                    for (vi, (vu, vl)) in su.iter().zip(sl).enumerate() {
                        lists.push((format!("sparse_cone_{ci}_vector_{vi}"), vu, vl));
                    }
                }
                'cmp: for (name, lu, ll) in lists {
                    if lu.len() != ll.len() {
                        ctx.violation("assembly:layouts_disagree", "assembly:layouts_disagree", wl, case, json!({"cones": problem::cones_json(&cones), "map": name, "lengths": [lu.len(), ll.len()]}));
                        break 'cmp;
                    }
                    for t in 0..lu.len() {
                        if lu[t] >= cu.len() || ll[t] >= cl.len() {
                            continue;
                        }
                        let ((ru, cu_), (rl, cl_)) = (cu[lu[t]], cl[ll[t]]);
                        if (ru, cu_) != (cl_, rl) {
                            ctx.violation("assembly:layouts_disagree", "assembly:layouts_disagree", wl, case, json!({"cones": problem::cones_json(&cones), "map": name, "t": t, "triu_coord": [ru, cu_], "tril_coord": [rl, cl_]}));
                            break 'cmp;
                        }
                    }
                }
            }
        }
        for triu in [true, false] {
            let shape = if triu { MatrixTriangle::Triu } else { MatrixTriangle::Tril };
            let r = vkit::report::catch(std::panic::AssertUnwindSafe(|| assemble_kkt(&p, &a, &comp, shape)));
            ctx.eval(1);
            match r {
                Err(msg) => ctx.violation("assembly:panic", "assembly:panic", wl, case, json!({"P": csc_json(&p), "A": csc_json(&a), "cones": problem::cones_json(&cones), "triu": triu, "panic": msg})),
                Ok((k, map)) => {
                    if let Some((o, d)) = check_assembly(&p, &a, &cones, &k, &map, triu) {
                        let sig = format!("assembly:{o}:{}", if triu { "triu" } else { "tril" });
                        ctx.violation(&format!("assembly:{o}"), &sig, wl, case, json!({"P": csc_json(&p), "A": csc_json(&a), "cones": problem::cones_json(&cones), "triu": triu, "check": d, "K": csc_json(&k)}));
                    }
                }
            }
        }
        for c in &cones {
            ctx.bump(&format!("layout_with_{}{}", vc::cone_name(c), if is_sparse_soc(c) { "_sparse" } else { "" }));
        }
        ctx.nontrivial_n(1);
        if case < 2 {
            ctx.sample(json!({"workload": wl, "n": n, "m": m, "cones": problem::cones_json(&cones), "nnzP": p.nnz(), "nnzA": a.nnz()}));
        }
    }
}

/// dense symmetric matrix from a triangular CSC
fn sym_dense(k: &CscMatrix<f64>) -> Dense {
    let d = Dense::from_csc(k);
    let mut s = d.clone();
    for i in 0..d.m {
        for j in 0..d.n {
            if d.get(i, j) != 0.0 && d.get(j, i) == 0.0 {
                s.set(j, i, d.get(i, j));
            }
        }
    }
    s
}

fn w_live(ctx: &mut Ctx) {
    let wl = "live";
    let total = if ctx.flavour == "miri" { ctx.count(4, 12) } else { ctx.count(500, 6000) };
    for case in ctx.cases(wl, total) {
        if ctx.out_of_budget() {
            continue;
        }
        ctx.begin(wl, case);
        let mut rng = Rng::for_case(ctx.seed, "C11/live", case);
        let mut o = GenOpts { kinds: gen::all_kinds(), allow_empty_cones: false, ..Default::default() };
        o.nmax = if ctx.flavour == "miri" { 3 } else { 8 };
        o.mmax = if ctx.flavour == "miri" { 9 } else { 30 };
        o.psd_max = 4;
        let pl = gen::planted(&mut rng, &o);
        let p = &pl.problem;
        if p.m() == 0 {
            continue;
        }
        let mut st = gen::default_settings();
        st.direct_solve_method = if ctx.flavour != "miri" && cfg!(feature = "faer") && rng.bool(0.4) { "faer".into() } else { "qdldl".into() };
        st.max_iter = rng.usize(1, 9) as u32;
        st.static_regularization_enable = rng.bool(0.8);
        st.equilibrate_enable = rng.bool(0.7);
        st.presolve_enable = false;
        let mut solver = match problem::new_solver(p, &st) {
            Ok(s) => s,
            Err(_) => continue,
        };
        if problem::solve_observed(&mut solver).is_err() {
            continue;
        }
        if solver.info.iterations == 0 {
            continue;
        }
        // phase 0: the state left by the solve above; phase 1: the same solver asked to solve again with
        // max_iter = 0, i.e. the identity-scaling KKT system that default_start assembles over the old state
        // phase 2 (a third of the cases): fault injection - a NaN is written into A through update_A, a solve
        // fails on it (failed factorisation path), A is repaired and the solver is used again
        // phase 3 (another third of the cases): in-place update of every value of P and A (same patterns, new
        // numbers, off-diagonals included) followed by a short solve: both copies of the KKT matrix must follow
        let phases: Vec<usize> = match case % 3 {
            0 if p.A.nnz() > 0 => vec![0, 1, 2],
            1 if p.A.nnz() > 0 => vec![0, 1, 3],
            _ => vec![0, 1],
        };
        for phase in phases {
        if phase == 1 {
            solver.settings.max_iter = 0;
            if problem::solve_observed(&mut solver).is_err() {
                break;
            }
            ctx.bump("live_resolve_identity_scaling_snapshots");
        }
        if phase == 2 {
            let mut poisoned = p.A.nzval.clone();
            let k = rng.usize(0, poisoned.len() - 1);
            poisoned[k] = f64::NAN;
            solver.settings.max_iter = st.max_iter;
            if solver.update_A(&poisoned).is_err() || problem::solve_observed(&mut solver).is_err() {
                ctx.bump("live_fault_injection_refused_or_panicked");
                break;
            }
            let failed_status = solver.solution.status;
            if solver.update_A(&p.A.nzval).is_err() || problem::solve_observed(&mut solver).is_err() {
                ctx.bump("live_fault_injection_refused_or_panicked");
                break;
            }
            ctx.bump(&format!("live_snapshots_after_failed_solve_{}", problem::status_name(failed_status)));
        }
        if phase == 3 {
            let pt = p.P.to_triu();
            let newp: Vec<f64> = pt.nzval.iter().map(|v| v * rng.range(0.8, 1.25)).collect();
            let newa: Vec<f64> = p.A.nzval.iter().map(|v| v * rng.range(0.8, 1.25) + 0.01 * rng.range(-1.0, 1.0)).collect();
            solver.settings.max_iter = st.max_iter;
            let okp = newp.is_empty() || solver.update_P(&newp).is_ok();
            if !okp || solver.update_A(&newa).is_err() || problem::solve_observed(&mut solver).is_err() {
                ctx.bump("live_update_refused_or_panicked");
                break;
            }
            ctx.bump("live_snapshots_after_data_update");
        }
        let snap = solver.kktsystem.verif_snapshot();
        ctx.eval(1);
        ctx.nontrivial_hash(p.hash() ^ case ^ phase as u64);
        ctx.bump(&format!("engine_{}", snap.engine.name));
        let (n, m, pd) = (snap.n, snap.m, snap.p);
        let dim = n + m + pd;
        let detail = |d: serde_json::Value| json!({"problem": p.to_json(), "settings": problem::settings_json(&st), "iterations": solver.info.iterations, "check": d});
        // (1) user entries sit where the map says, unregularised
        let mut fail: Option<(String, serde_json::Value)> = None;
        for (t, &idx) in snap.map.P.iter().enumerate() {
            if snap.kkt.nzval[idx].to_bits() != solver.data.P.nzval[t].to_bits() {
                fail = Some(("live:P_value".into(), json!({"entry": t, "kkt": snap.kkt.nzval[idx], "data": solver.data.P.nzval[t]})));
            }
        }
        for (t, &idx) in snap.map.A.iter().enumerate() {
            if snap.kkt.nzval[idx].to_bits() != solver.data.A.nzval[t].to_bits() {
                fail = Some(("live:A_value".into(), json!({"entry": t})));
            }
        }
        // (2) Schur complement of the auxiliary variables = [P A'; A -H] with H from the cones' own operator
        let ks = sym_dense(&snap.kkt);
        let mut href = Dense::zeros(m, m);
        {
            let mut e = vec![0.0; m];
            let mut col = vec![0.0; m];
            let mut work = vec![0.0; m];
            for j in 0..m {
                e.iter_mut().for_each(|v| *v = 0.0);
                e[j] = 1.0;
                solver.cones.mul_Hs(&mut col, &e, &mut work);
                for i in 0..m {
                    href.set(i, j, col[i]);
                }
            }
        }
        let nm = n + m;
        let mut schur = Dense::zeros(nm, nm);
        for i in 0..nm {
            for j in 0..nm {
                schur.set(i, j, ks.get(i, j));
            }
        }
        if pd > 0 {
            // K22 (pd x pd) and K21 (pd x nm)
            let mut k22 = vec![0.0; pd * pd];
            for i in 0..pd {
                for j in 0..pd {
                    k22[i + j * pd] = ks.get(nm + i, nm + j);
                }
            }
            let mut rhs = vec![0.0; pd * nm];
            for i in 0..pd {
                for j in 0..nm {
                    rhs[i + j * pd] = ks.get(nm + i, j);
                }
            }
            let mut ipiv = vec![0i32; pd];
            if refla::lu_inplace(pd, &mut k22, pd, &mut ipiv).is_ok() {
                refla::lu_solve(pd, nm, &k22, pd, &ipiv, &mut rhs, pd);
                for i in 0..nm {
                    for j in 0..nm {
                        let mut s = 0.0;
                        for t in 0..pd {
                            s += ks.get(i, nm + t) * rhs[t + j * pd];
                        }
                        schur.add(i, j, -s);
                    }
                }
            } else {
                fail = Some(("live:aux_block_singular".into(), json!({})));
            }
        }
        let pint = {
            let d = Dense::from_csc(&solver.data.P);
            d.sym_from_triu()
        };
        let aint = Dense::from_csc(&solver.data.A);
        let mut kref = Dense::zeros(nm, nm);
        for i in 0..n {
            for j in 0..n {
                kref.set(i, j, pint.get(i, j));
            }
        }
        for i in 0..m {
            for j in 0..n {
                kref.set(n + i, j, aint.get(i, j));
                kref.set(j, n + i, aint.get(i, j));
            }
            for j in 0..m {
                kref.set(n + i, n + j, -href.get(i, j));
            }
        }
        let mut worst = 0.0f64;
        let mut at = (0, 0);
        // blockwise scale: compare the H block relative to the H block scale of that cone row
        for i in 0..nm {
            for j in 0..nm {
                let sc = if i >= n && j >= n { href.get(i - n, i - n).abs().max(href.get(j - n, j - n).abs()).max(1e-300) } else { kref.max_abs().min(1e300).max(1e-300) };
                let e = (schur.get(i, j) - kref.get(i, j)).abs() / sc;
                if e > worst {
                    worst = e;
                    at = (i, j);
                }
            }
        }
        ctx.observe_max("schur_vs_reference_rel_err", worst);
        if !(worst <= 1e-9) && fail.is_none() {
            fail = Some(("live:schur_complement_ne_reference".into(), json!({"relative_error": worst, "at": at, "schur": schur.get(at.0, at.1), "reference": kref.get(at.0, at.1)})));
        }
        // (3) engine copy = KKT copy except +-eps*dsigns on the full diagonal
        let eps = snap.diagonal_regularizer;
        let diagset: HashSet<usize> = snap.map.diag_full.iter().copied().collect();
        if snap.engine.values.len() == snap.kkt.nnz() {
            for idx in 0..snap.kkt.nnz() {
                let kv = snap.kkt.nzval[idx];
                let ev = snap.engine.values[idx];
                if !diagset.contains(&idx) {
                    if kv.to_bits() != ev.to_bits() && !(kv == 0.0 && ev == 0.0) {
                        fail = Some(("live:engine_copy_offdiag".into(), json!({"index": idx, "kkt": kv, "engine": ev})));
                    }
                }
            }
            for (i, &idx) in snap.map.diag_full.iter().enumerate() {
                let kv = snap.kkt.nzval[idx];
                let ev = snap.engine.values[idx];
                let want = if st.static_regularization_enable { if snap.dsigns[i] == 1 { kv + eps } else { kv - eps } } else { kv };
                if want.to_bits() != ev.to_bits() {
                    fail = Some(("live:engine_diagonal_regularisation".into(), json!({"i": i, "kkt": kv, "engine": ev, "eps": eps, "dsign": snap.dsigns[i], "static_reg": st.static_regularization_enable})));
                }
            }
        } else {
            fail = Some(("live:engine_values_length".into(), json!({"got": snap.engine.values.len(), "want": snap.kkt.nnz()})));
        }
        // (4) recorded sign pattern: + for the n primal rows, - for the m cone rows, expansion signs after
        let mut want_signs = vec![1i8; dim];
        for s in want_signs[n..nm].iter_mut() {
            *s = -1;
        }
        let mut q = nm;
        for ds in &snap.map.sparse_dsigns {
            for &s in ds {
                want_signs[q] = s;
                q += 1;
            }
        }
        if snap.dsigns != want_signs {
            fail = Some(("live:dsigns".into(), json!({"got": snap.dsigns, "want": want_signs})));
        }
        // pivot signs of the regularised matrix match the recorded pattern (QDLDL exposes D)
        if let (Some(d), Some(perm)) = (&snap.engine.D, &snap.engine.perm) {
            if d.iter().all(|v| v.is_finite()) {
                for kx in 0..dim {
                    let sgn = if d[kx] > 0.0 { 1 } else { -1 };
                    if sgn != snap.dsigns[perm[kx]] {
                        fail = Some(("live:pivot_sign".into(), json!({"pivot": kx, "D": d[kx], "expected_sign": snap.dsigns[perm[kx]]})));
                        break;
                    }
                }
                ctx.bump("pivot_sign_vectors_checked");
            }
        }
        // the auxiliary diagonal of the expansion carries the recorded signs too
        for i in nm..dim {
            let v = ks.get(i, i);
            if !((v > 0.0) == (snap.dsigns[i] > 0)) {
                fail = Some(("live:aux_diagonal_sign".into(), json!({"i": i, "value": v, "dsign": snap.dsigns[i]})));
            }
        }
        if pd > 0 {
            ctx.bump("live_with_sparse_expansion");
        }
        if let Some((o, d)) = fail {
            let o = match phase {
                1 => format!("{o}:after_resolve"),
                2 => format!("{o}:after_failed_solve"),
                3 => format!("{o}:after_data_update"),
                _ => o,
            };
            ctx.violation(&o, &o, wl, case, detail(d));
        }
        if case < 2 && phase == 0 {
            ctx.sample(json!({"workload": wl, "n": n, "m": m, "p": pd, "engine": snap.engine.name, "iterations": solver.info.iterations, "schur_rel_err": worst}));
        }
        }
    }
}

pub fn run(ctx: &mut Ctx) {
    w_assembly(ctx);
    w_live(ctx);
}

//! C02 — infeasibility verdicts carry valid Farkas-type certificates.
use crate::common::*;
use clarabel::solver::SolverStatus;
use serde_json::json;
use vkit::cones::ConeT;
use vkit::dense::Dense;
use vkit::gen::{self, GenOpts};
use vkit::problem::{self, status_name, Problem};
use vkit::{Ctx, Rng};

/// row/column scaling to produce ill-conditioned variants (cone-preserving: a common positive
/// factor per non-scalar cone, arbitrary positive factors on scalar-cone rows and on columns)
pub fn illcondition(p: &mut Problem, rng: &mut Rng, decades: f64) {
    use vkit::cones::{cone_ranges, ConeT};
    let m = p.m();
    let n = p.n();
    let mut e = vec![1.0; m];
    for (c, r) in p.cones.iter().zip(cone_ranges(&p.cones)) {
        let scalar = matches!(c, ConeT::ZeroConeT(_) | ConeT::NonnegativeConeT(_));
        let common = rng.logpos(-decades, decades);
        for i in r {
            e[i] = if scalar { rng.logpos(-decades, decades) } else { common };
        }
    }
    let d: Vec<f64> = (0..n).map(|_| rng.logpos(-decades, decades)).collect();
    // A <- E A D ; b <- E b ; P <- D P D ; q <- D q   (x = D x')
    let a = &mut p.A;
    for j in 0..n {
        for k in a.colptr[j]..a.colptr[j + 1] {
            a.nzval[k] *= e[a.rowval[k]] * d[j];
        }
    }
    for i in 0..m {
        p.b[i] *= e[i];
    }
    let pp = &mut p.P;
    for j in 0..n {
        for k in pp.colptr[j]..pp.colptr[j + 1] {
            pp.nzval[k] *= d[pp.rowval[k]] * d[j];
        }
    }
    for j in 0..n {
        p.q[j] *= d[j];
    }
}

pub fn run(ctx: &mut Ctx) {
    let bound = clarabel::get_infinity();
    for (wl, primal_family) in [("primal_infeasible", true), ("dual_infeasible", false)] {
        let total = ctx.count(1200, 9000);
        for case in ctx.cases(wl, total) {
            if ctx.out_of_budget() {
                continue;
            }
            ctx.begin(wl, case);
            let mut rng = Rng::for_case(ctx.seed, &format!("C02/{wl}"), case);
            let mut o = GenOpts { kinds: gen::all_kinds(), ..Default::default() };
            o.nmax = *rng.choose(&[3, 8, 16]);
            o.mmax = *rng.choose(&[8, 20, 40]);
            // a slice of the dual-infeasible family gets what its generator leaves out: equality rows (orthogonal
            // to the unbounded ray, so the ray stays one), symmetric cones only and loose inequalities - the class
            // that takes the KKT-based initialisation and finds its starting slacks already well inside
            let with_equalities = !primal_family && rng.bool(0.2);
            if with_equalities {
                o.kinds = vec!["NN", "SOC", "NN"];
            }
            let (mut p, _wit) = if primal_family { gen::primal_infeasible(&mut rng, &o) } else { gen::dual_infeasible(&mut rng, &o) };
            if with_equalities && _wit.len() == p.n() {
                let (n, m) = (p.n(), p.m());
                let k = rng.usize(1, 2);
                let xx: f64 = _wit.iter().map(|v| v * v).sum::<f64>().max(1e-300);
                let a = Dense::from_csc(&p.A);
                let mut a2 = Dense::zeros(m + k, n);
                // equality rows first, then the original rows
                for t in 0..k {
                    let mut row: Vec<f64> = (0..n).map(|_| rng.range(-1.0, 1.0)).collect();
                    let d: f64 = row.iter().zip(&_wit).map(|(u, v)| u * v).sum();
                    for j in 0..n {
                        row[j] -= d * _wit[j] / xx;
                        a2.set(t, j, row[j]);
                    }
                }
                for i in 0..m {
                    for j in 0..n {
                        a2.set(k + i, j, a.get(i, j));
                    }
                }
                let loose = 10f64.powf(rng.range(1.0, 2.5));
                let mut b2: Vec<f64> = (0..k).map(|_| rng.range(-0.5, 0.5)).collect();
                b2.extend(p.b.iter().map(|v| v * loose));
                let mut cones2 = vec![ConeT::ZeroConeT(k)];
                cones2.extend(p.cones.iter().cloned());
                p = Problem { P: p.P.clone(), q: p.q.clone(), A: a2.to_csc(), b: b2, cones: cones2 };
                ctx.bump("dual_infeasible_instances_with_equality_rows");
            }
            let ill = rng.bool(0.4);
            if ill {
                let dec = *rng.choose(&[1.0, 2.0, 4.0]);
                illcondition(&mut p, &mut rng, dec);
            }
            let mut st = gen::random_settings(&mut rng, true);
            // equilibration extremes are the interesting axis
            if rng.bool(0.3) {
                st.equilibrate_enable = true;
                st.equilibrate_max_iter = *rng.choose(&[1, 10, 30]);
                st.equilibrate_min_scaling = 1e-8;
                st.equilibrate_max_scaling = 1e8;
            }
            // a quarter of the verdicts are produced by a solver object that has already been used: a first
            // solve cut off after one iteration leaves finite objective values and a non-infeasible status behind
            let reused = rng.bool(0.25);
            let mut updated = false;
            let attempt = if reused {
                let mut st1 = st.clone();
                st1.max_iter = 1;
                problem::new_solver(&p, &st1).and_then(|mut solver| {
                    problem::solve_observed(&mut solver)?;
                    solver.settings.max_iter = st.max_iter;
                    let ev = problem::solve_observed(&mut solver)?;
                    Ok(problem::extract(&solver, ev))
                })
            } else if rng.bool(0.2) && p.m() > 0 {
                // ... and some by a solver that was BUILT on slightly different right-hand sides / costs and brought
                // to the problem under test by in-place (index,value) updates: the certificate must be about the data
                // the solver holds now, as the user wrote them
                let mut p0 = p.clone();
                let idx: Vec<usize> = (0..rng.usize(1, p.m().min(4))).map(|_| rng.usize(0, p.m() - 1)).collect();
                for &i in &idx {
                    p0.b[i] += rng.range(0.5, 2.0);
                }
                let jdx: Vec<usize> = (0..rng.usize(1, p.n().min(3))).map(|_| rng.usize(0, p.n() - 1)).collect();
                for &j in &jdx {
                    p0.q[j] -= rng.range(0.5, 2.0);
                }
                let vb: Vec<f64> = idx.iter().map(|&i| p.b[i]).collect();
                let vq: Vec<f64> = jdx.iter().map(|&j| p.q[j]).collect();
                match problem::new_solver(&p0, &st) {
                    Ok(mut solver) => {
                        if solver.update_b(&(idx, vb)).is_ok() && solver.update_q(&(jdx, vq)).is_ok() {
                            updated = true;
                            problem::solve_observed(&mut solver).map(|ev| problem::extract(&solver, ev))
                        } else {
                            problem::run(&p, &st)
                        }
                    }
                    Err(_) => problem::run(&p, &st),
                }
            } else {
                problem::run(&p, &st)
            };
            if updated {
                ctx.bump("verdicts_after_in_place_updates");
            }
            let res = match attempt {
                Ok(r) => r,
                Err(msg) => {
                    ctx.inconclusive(&format!("panic: {msg}"), wl, case);
                    continue;
                }
            };
            if reused {
                ctx.bump("verdicts_from_a_reused_solver_object");
            }
            ctx.eval(1);
            ctx.bump(&format!("{wl}:status_{}", status_name(res.status)));
            let (is_p, almost) = match res.status {
                SolverStatus::PrimalInfeasible => (true, false),
                SolverStatus::AlmostPrimalInfeasible => (true, true),
                SolverStatus::DualInfeasible => (false, false),
                SolverStatus::AlmostDualInfeasible => (false, true),
                _ => continue,
            };
            if is_p != primal_family {
                ctx.bump(&format!("{wl}:verdict_of_other_class_(observation)"));
            }
            let pm = presolve_model(&p, &st, &res, bound);
            let ev = eval_with_model(&p, &res, &pm, bound);
            let fe = match res.final_event() {
                Some(e) => e.clone(),
                None => {
                    ctx.inconclusive("no final observer event", wl, case);
                    continue;
                }
            };
            let (ta, tr) = if almost { (st.reduced_tol_infeas_abs, st.reduced_tol_infeas_rel) } else { (st.tol_infeas_abs, st.tol_infeas_rel) };
            let mut fails = judge_certificate(&ev, is_p, fe.κ, res.c, ta, tr);
            fails.extend(pm.fails.clone());
            if !(res.obj_val.is_nan() && res.obj_val_dual.is_nan()) {
                fails.push(("objective_not_nan".into(), json!({"obj_val": problem::fj(res.obj_val), "obj_val_dual": problem::fj(res.obj_val_dual)})));
            }
            ctx.nontrivial_hash(p.hash() ^ case);
            ctx.bump(if is_p { "certificates_primal" } else { "certificates_dual" });
            if ill {
                ctx.bump("certificates_on_illconditioned_variant");
            }
            if st.equilibrate_enable {
                ctx.bump("certificates_with_equilibration");
            }
            for k in p.cone_kinds() {
                ctx.bump(&format!("certificate_with_{k}"));
            }
            if is_p {
                ctx.observe_max("|A'z|/|b'z|", ev.atz_norm / ev.bz.abs().max(1e-300));
            } else {
                ctx.observe_max("max(|Px|,|Ax+s|)/|q'x|", ev.px_norm.max(ev.axs_norm) / ev.qx.abs().max(1e-300));
            }
            for (oracle, detail) in fails {
                ctx.violation(&oracle, &oracle, wl, case, case_json(&p, &st, &res, json!({"check": detail, "kappa": fe.κ, "tau": fe.τ, "c": res.c})));
            }
            if case < 2 {
                ctx.sample(json!({"workload": wl, "n": p.n(), "m": p.m(), "cones": problem::cones_json(&p.cones), "status": status_name(res.status), "b'z": ev.bz, "q'x": ev.qx, "|A'z|": ev.atz_norm, "kappa": fe.κ}));
            }
        }
    }
}

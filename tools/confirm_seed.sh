#!/bin/bash
# usage: confirm_seed.sh <id>  — confirms a seeded change in a scratch worktree of /repo's HEAD:
# builds, existing suite passes with the change, demo fails with it and passes without it.
id=$1
wt=/tmp/seedchk/$id
low=$(echo $id | tr 'A-Z' 'a-z')
rm -rf $wt; mkdir -p /tmp/seedchk
git -C /repo worktree add -q --detach $wt HEAD || exit 2
cd $wt
feat=""
if [ "${id:0:3}" = "C17" ] || [ "${id:0:3}" = "C18" ]; then
  cat >> Cargo.toml <<'EOT'

[patch.crates-io]
blas-src = { path = "/verif/tools/blaskit/stubs/blas-src" }
lapack-src = { path = "/verif/tools/blaskit/stubs/lapack-src" }
EOT
  feat="--features sdp-r,verif"
elif grep -qE "clarabel::verif|feature = \"verif\"|verif_" /verif/seeded/$id/demo.rs; then
  feat="--features verif"
fi
if grep -q 'feature = "faer-sparse"' /verif/seeded/$id/demo.rs; then feat="--features faer-sparse"; fi
cp /verif/seeded/$id/demo.rs tests/demo_$low.rs
export CARGO_NET_OFFLINE=true
res() { echo "\"$1\": $2"; }
git apply /verif/seeded/$id/patch.diff || { echo "{\"id\":\"$id\",\"applies\":false}" > /verif/seeded/$id/confirm.json; exit 1; }
b=false; cargo build --offline >/dev/null 2>&1 && b=true
# existing suite (default features) excluding the demo itself
t=false; cargo test --workspace --offline --no-fail-fast 2>&1 | grep -E "^test result|^error" > /tmp/seedchk/$id.suite.txt
mv tests/demo_$low.rs /tmp/seedchk/demo_$low.rs
if cargo test --workspace --offline --no-fail-fast >/tmp/seedchk/$id.suite_full.txt 2>&1; then t=true; fi
mv /tmp/seedchk/demo_$low.rs tests/demo_$low.rs
f=false; if ! cargo test --offline $feat --test demo_$low >/tmp/seedchk/$id.demo_with.txt 2>&1; then f=true; fi
git apply -R /verif/seeded/$id/patch.diff
p=false; if cargo test --offline $feat --test demo_$low >/tmp/seedchk/$id.demo_without.txt 2>&1; then p=true; fi
echo "{\"id\":\"$id\",\"base\":\"$(git -C /repo log --format=%h -1)\",\"applies\":true,\"builds\":$b,\"existing_tests_pass_with_change\":$t,\"demo_fails_with_change\":$f,\"demo_passes_without_change\":$p,\"demo_cmd\":\"cargo test --offline $feat --test demo_$low\"}" > /verif/seeded/$id/confirm.json
cat /verif/seeded/$id/confirm.json
cd /; git -C /repo worktree remove --force $wt

//! C04 — every solve terminates cleanly within its limits, whatever the input.
use crate::common::*;
use clarabel::algebra::CscMatrix;
use clarabel::solver::{DefaultSolver, SolverStatus};
use clarabel::verif::IterEvent;
use serde_json::json;
use vkit::cones::*;
use vkit::dense::Dense;
use vkit::gen::{self, GenOpts};
use vkit::problem::{self, status_name, Problem};
use vkit::report::catch;
use vkit::{Ctx, Rng};

/// degenerate / boundary shapes
fn degenerate(rng: &mut Rng) -> (Problem, &'static str) {
    let kind = rng.usize(0, 11);
    let mut o = GenOpts { kinds: gen::all_kinds(), ..Default::default() };
    o.nmax = 6;
    o.mmax = 14;
    match kind {
        0 => {
            // no constraints at all
            let n = rng.usize(1, 5);
            let pd = if rng.bool(0.5) { gen::random_psd(rng, n, -1.0, 1.0) } else { Dense::zeros(n, n) };
            let q: Vec<f64> = (0..n).map(|_| if rng.bool(0.3) { 0.0 } else { rng.range(-1.0, 1.0) }).collect();
            (Problem { P: gen::p_to_csc(&pd, rng.bool(0.3)), q, A: CscMatrix::zeros((0, n)), b: vec![], cones: if rng.bool(0.5) { vec![] } else { vec![ConeT::NonnegativeConeT(0), ConeT::ZeroConeT(0)] } }, "m=0")
        }
        1 => {
            // n = 1
            o.nmax = 1;
            (gen::planted(rng, &o).problem, "n=1")
        }
        2 => {
            // all-zero A
            let mut p = gen::planted(rng, &o).problem;
            p.A = CscMatrix::zeros((p.m(), p.n()));
            (p, "A=0")
        }
        3 => {
            // all-zero P and q
            let mut p = gen::planted(rng, &o).problem;
            p.P = CscMatrix::zeros((p.n(), p.n()));
            if rng.bool(0.5) {
                for v in p.q.iter_mut() {
                    *v = 0.0;
                }
            }
            (p, "P=0")
        }
        4 => {
            // empty and singleton cones everywhere
            let n = rng.usize(1, 4);
            let mut cones = vec![];
            for _ in 0..rng.usize(2, 7) {
                // empty cones of EVERY kind that has a dimension argument, in every position: first, last, after a
                // collapsible cone (zero / nonnegative) and after one that is not (second-order, exponential, power)
                let c = match rng.usize(0, 11) {
                    0 => ConeT::ZeroConeT(0),
                    7 | 8 => ConeT::SecondOrderConeT(0),
                    9 => ConeT::SecondOrderConeT(3),
                    10 => ConeT::ExponentialConeT(),
                    11 => ConeT::PowerConeT(rng.range(0.1, 0.9)),
                    1 => ConeT::NonnegativeConeT(0),
                    2 => ConeT::SecondOrderConeT(1),
                    3 => ConeT::NonnegativeConeT(1),
                    4 => ConeT::ZeroConeT(1),
                    #[cfg(feature = "sdp")]
                    5 => ConeT::PSDTriangleConeT(1),
                    #[cfg(feature = "sdp")]
                    6 => ConeT::PSDTriangleConeT(0),
                    _ => ConeT::SecondOrderConeT(2),
                };
                cones.push(c);
            }
            let m = total_dim(&cones);
            let a = gen::random_sparse(rng, m, n, 0.7, -1.0, 1.0);
            let mut b: Vec<f64> = (0..m).map(|_| rng.range(-1.0, 2.0)).collect();
            // ... together with infinite bounds, so that the presolver rewrites this very cone list
            if rng.bool(0.4) {
                for (c, r) in cones.iter().zip(cone_ranges(&cones)) {
                    if matches!(c, ConeT::NonnegativeConeT(_)) {
                        for i in r {
                            if rng.bool(0.5) {
                                b[i] = *rng.choose(&[1e20, 1e25, f64::MAX]);
                            }
                        }
                    }
                }
            }
            let q: Vec<f64> = (0..n).map(|_| rng.range(-1.0, 1.0)).collect();
            let pd = gen::random_psd(rng, n, -1.0, 1.0);
            (Problem { P: gen::p_to_csc(&pd, false), q, A: a.to_csc(), b, cones }, "empty/singleton cones")
        }
        5 => {
            // duplicate / redundant rows in scalar cones
            o.kinds = vec!["NN", "Zero", "NN"];
            o.allow_empty_cones = false;
            let p0 = gen::planted(rng, &o).problem;
            let a = Dense::from_csc(&p0.A);
            let (m, n) = (p0.m(), p0.n());
            let mut a2 = Dense::zeros(2 * m, n);
            let mut b2 = vec![];
            let mut cones2 = vec![];
            for (c, r) in p0.cones.iter().zip(cone_ranges(&p0.cones)) {
                let base = b2.len();
                for rep in 0..2 {
                    for i in r.clone() {
                        for j in 0..n {
                            a2.set(base + rep * r.len() + (i - r.start), j, a.get(i, j));
                        }
                    }
                }
                for _ in 0..2 {
                    for i in r.clone() {
                        b2.push(p0.b[i]);
                    }
                }
                cones2.push(match c {
                    ConeT::ZeroConeT(k) => ConeT::ZeroConeT(2 * k),
                    ConeT::NonnegativeConeT(k) => ConeT::NonnegativeConeT(2 * k),
                    other => other.clone(),
                });
            }
            (Problem { P: p0.P.clone(), q: p0.q.clone(), A: a2.to_csc(), b: b2, cones: cones2 }, "duplicate rows")
        }
        6 => (gen::primal_infeasible(rng, &o).0, "primal infeasible"),
        7 => (gen::dual_infeasible(rng, &o).0, "dual infeasible"),
        8 => {
            // weakly infeasible / no strict interior: x1 >= 0, -x1 >= 0 (+eps), free objective
            let n = rng.usize(1, 3);
            let mut a = Dense::zeros(2 * n, n);
            let mut b = vec![0.0; 2 * n];
            for j in 0..n {
                a.set(2 * j, j, -1.0);
                a.set(2 * j + 1, j, 1.0);
                b[2 * j] = 0.0;
                b[2 * j + 1] = *rng.choose(&[0.0, -1e-12, 1e-9]);
            }
            let q: Vec<f64> = (0..n).map(|_| rng.range(-1.0, 1.0)).collect();
            (Problem { P: CscMatrix::zeros((n, n)), q, A: a.to_csc(), b, cones: vec![ConeT::NonnegativeConeT(2 * n)] }, "no strict interior")
        }
        9 => {
            // extreme but finite magnitudes sprinkled
            let mut p = gen::planted(rng, &o).problem;
            let ex = *rng.choose(&[150.0, 100.0, 30.0, -30.0, -150.0]);
            let f = 10f64.powf(ex);
            for v in p.A.nzval.iter_mut() {
                if rng.bool(0.15) {
                    *v *= f;
                }
            }
            for v in p.b.iter_mut() {
                if rng.bool(0.15) {
                    *v *= f;
                }
            }
            for v in p.q.iter_mut() {
                if rng.bool(0.15) {
                    *v *= f;
                }
            }
            if rng.bool(0.3) {
                for v in p.P.nzval.iter_mut() {
                    *v *= f.min(1e100);
                }
            }
            (p, "extreme magnitudes")
        }
        10 => {
            // zero rows and zero columns
            let mut p = gen::planted(rng, &o).problem;
            let mut a = Dense::from_csc(&p.A);
            for i in 0..a.m {
                if rng.bool(0.3) {
                    for j in 0..a.n {
                        a.set(i, j, 0.0);
                    }
                }
            }
            for j in 0..a.n {
                if rng.bool(0.3) {
                    for i in 0..a.m {
                        a.set(i, j, 0.0);
                    }
                }
            }
            p.A = a.to_csc();
            (p, "zero rows/cols")
        }
        _ => (gen::planted(rng, &o).problem, "planted"),
    }
}

fn check_run(ctx: &mut Ctx, wl: &str, case: u64, p: &Problem, st: &clarabel::solver::DefaultSettings<f64>, tag: &str) {
    // every fifth run prints its progress (into an in-memory buffer): the printing code sits inside the main
    // loop and formats whatever magnitudes the iterates reach
    let loud = case % 5 == 2;
    let (r, ev, _cones) = if loud {
        let mut stv = st.clone();
        stv.verbose = true;
        ctx.bump("runs_with_verbose_output_to_buffer");
        problem::run_traced_with(p, &stv, |s| {
            use clarabel::io::ConfigurablePrintTarget;
            s.print_to_buffer()
        })
    } else {
        problem::run_traced(p, st)
    };
    ctx.eval(1);
    let iters: Vec<&IterEvent> = ev.iter().filter(|e| e.kind == clarabel::verif::IterEventKind::Iterate).collect();
    match r {
        Err(msg) => {
            // signature: the panic site, so that distinct panics are distinct findings
            let site = msg.rsplit(" @ ").next().unwrap_or("").replace("/repo/", "");
            ctx.violation("panic", &format!("panic:{site}"), wl, case, json!({"problem": p.to_json(), "settings": problem::settings_json(st), "panic": msg, "shape": tag, "events_before_panic": iters.len()}));
        }
        Ok(res) => {
            ctx.bump(&format!("status_{}", status_name(res.status)));
            let mut fails = vec![];
            if res.status == SolverStatus::Unsolved {
                fails.push(("nonterminal_status", json!({})));
            }
            if res.iterations > st.max_iter {
                fails.push(("iterations_exceed_max_iter", json!({"iterations": res.iterations, "max_iter": st.max_iter})));
            }
            // bounded progress, judged on logical events
            if iters.len() as u64 > st.max_iter as u64 + 2 {
                fails.push(("too_many_iteration_events", json!({"events": iters.len(), "max_iter": st.max_iter})));
            }
            // the solver's own clock (the one the time limit is tested against) must advance while it iterates
            if iters.len() >= 4 {
                let (first, last) = (iters.first().unwrap(), iters.last().unwrap());
                let nondecreasing = iters.windows(2).all(|w| w[1].solve_time >= w[0].solve_time);
                if !nondecreasing || !(last.solve_time > first.solve_time) {
                    fails.push(("solver_clock_does_not_advance", json!({"clock_at_first_event": first.solve_time, "clock_at_last_event": last.solve_time, "events": iters.len()})));
                }
                ctx.bump("runs_with_clock_progress_checked");
            }
            // time limit, judged on the solver's own clock values
            if let Some(k) = iters.iter().position(|e| e.solve_time > st.time_limit) {
                let idx_k = iters[k].iterations;
                if iters[k + 1..].iter().any(|e| e.iterations > idx_k) {
                    fails.push(("kept_iterating_after_time_limit", json!({"first_exceeding_event": k, "its_index": idx_k, "last_index": iters.last().unwrap().iterations, "time_limit": st.time_limit})));
                }
                ctx.bump("runs_exceeding_time_limit");
                if res.status == SolverStatus::MaxTime {
                    ctx.bump("runs_ending_MaxTime");
                }
            } else if res.status == SolverStatus::MaxTime {
                fails.push(("MaxTime_without_exceeding_limit", json!({"time_limit": st.time_limit})));
            }
            if res.x.len() != p.n() || res.s.len() != p.m() || res.z.len() != p.m() {
                fails.push(("lengths", json!({"x": res.x.len(), "s": res.s.len(), "z": res.z.len()})));
            }
            for (o, d) in fails {
                ctx.violation(o, o, wl, case, case_json(p, st, &res, json!({"check": d, "shape": tag})));
            }
        }
    }
}

pub fn run(ctx: &mut Ctx) {
    // W1: degenerate shapes x iteration / time budgets
    let wl = "degenerate";
    let total = ctx.count(3000, 40000);
    for case in ctx.cases(wl, total) {
        if ctx.out_of_budget() {
            continue;
        }
        ctx.begin(wl, case);
        let mut rng = Rng::for_case(ctx.seed, "C04/degenerate", case);
        let (p, tag) = degenerate(&mut rng);
        let mut st = gen::random_settings(&mut rng, true);
        st.max_iter = *rng.choose(&[0, 1, 2, 3, 4, 5, 200, 200, 200]);
        // (huge finite limits are what callers pass for "no limit" when they cannot pass infinity)
        st.time_limit = *rng.choose(&[0.0, 1e-9, f64::INFINITY, f64::INFINITY, f64::INFINITY, 1e-4, 1e20, f64::MAX, 5e-324]);
        ctx.bump(&format!("shape_{tag}"));
        ctx.nontrivial_hash(p.hash() ^ case);
        check_run(ctx, wl, case, &p, &st, tag);
        if case < 3 {
            ctx.sample(json!({"workload": wl, "shape": tag, "n": p.n(), "m": p.m(), "cones": problem::cones_json(&p.cones), "max_iter": st.max_iter, "time_limit": problem::fj(st.time_limit)}));
        }
    }

    // W2: well-posed and ill-posed planted problems with default-ish settings (rare panics)
    let wl = "planted";
    let total = ctx.count(3000, 60000);
    for case in ctx.cases(wl, total) {
        if ctx.out_of_budget() {
            continue;
        }
        ctx.begin(wl, case);
        let mut rng = Rng::for_case(ctx.seed, "C04/planted", case);
        let mut o = GenOpts { kinds: gen::all_kinds(), ..Default::default() };
        o.nmax = *rng.choose(&[5, 15, 30]);
        o.mmax = *rng.choose(&[10, 30, 80]);
        let (lo, hi) = *rng.choose(&[(-1.0, 1.0), (-2.0, 2.0), (0.0, 3.0), (-3.0, 0.0)]);
        o.mag_lo = lo;
        o.mag_hi = hi;
        let p = gen::planted(&mut rng, &o).problem;
        let st = if rng.bool(0.5) { gen::default_settings() } else { gen::random_settings(&mut rng, true) };
        ctx.nontrivial_hash(p.hash() ^ case);
        check_run(ctx, wl, case, &p, &st, "planted");
    }

    // W2b: regression corpus — instances (regenerated from fixed generator coordinates) on which an
    // earlier run of some check observed a crash; kept so that the crash stays observable
    let wl = "corpus";
    let corpus: &[(u64, &str, u64)] = &[(1, "C06/family_G", 4622)];
    for case in ctx.cases(wl, corpus.len() as u64) {
        ctx.begin(wl, case);
        let (sd, tag, cs) = corpus[case as usize];
        let mut rng = Rng::for_case(sd, tag, cs);
        let p = crate::c06::family_g(&mut rng).problem;
        let st = gen::default_settings();
        ctx.nontrivial_hash(p.hash());
        check_run(ctx, wl, case, &p, &st, "corpus");
    }

    // W2c: tiny problems mixing a nonsymmetric cone (solver starts in the primal-dual strategy) with second-order
    // cones, every data block at its own wild magnitude: the cheap way to drive iterates onto cone boundaries, into
    // failed scaling updates, strategy switches and the error exits of the main loop, tens of thousands of times
    let wl = "mixed_badly_scaled";
    let total = ctx.count(12000, 240000);
    for case in ctx.cases(wl, total) {
        if ctx.out_of_budget() {
            continue;
        }
        if case % 256 == 0 {
            ctx.begin(wl, case);
        }
        let mut rng = Rng::for_case(ctx.seed, "C04/mixed_badly_scaled", case);
        let mut cones = vec![if rng.bool(0.6) { ConeT::ExponentialConeT() } else { ConeT::PowerConeT(*rng.choose(&[0.5, 0.3, 0.9])) }];
        for _ in 0..rng.usize(1, 2) {
            cones.push(ConeT::SecondOrderConeT(rng.usize(2, 4)));
        }
        if rng.bool(0.3) {
            cones.push(ConeT::NonnegativeConeT(rng.usize(1, 2)));
        }
        rng.shuffle(&mut cones);
        let m: usize = cones.iter().map(vkit::cones::cone_dim).sum();
        let n = rng.usize(2, 4);
        let two_digits = |v: f64| {
            // data rounded to two significant digits (exact ties and cancellations become likely)
            if v == 0.0 {
                return 0.0;
            }
            let e = v.abs().log10().floor();
            let f = 10f64.powf(e - 1.0);
            (v / f).round() * f
        };
        let (ea, eb, eq, ep) = (rng.range(0.0, 12.0), rng.range(0.0, 20.0), rng.range(-12.0, 2.0), rng.range(-2.0, 10.0));
        let mut a = vkit::dense::Dense::zeros(m, n);
        for i in 0..m {
            for j in 0..n {
                if rng.bool(0.6) {
                    a.set(i, j, two_digits(rng.range(-1.0, 1.0) * 10f64.powf(ea + rng.range(0.0, 1.0))));
                }
            }
        }
        let b: Vec<f64> = (0..m).map(|_| two_digits(rng.range(-1.0, 1.0) * 10f64.powf(eb + rng.range(0.0, 1.0)))).collect();
        let q: Vec<f64> = (0..n).map(|_| two_digits(rng.range(-1.0, 1.0) * 10f64.powf(eq + rng.range(0.0, 1.0)))).collect();
        let mut pd = vkit::dense::Dense::zeros(n, n);
        for j in 0..n {
            if rng.bool(0.4) {
                pd.set(j, j, two_digits(rng.range(0.1, 1.0) * 10f64.powf(ep)));
            }
        }
        let p = Problem { P: pd.to_csc(), q, A: a.to_csc(), b, cones };
        let mut st = gen::default_settings();
        st.max_iter = *rng.choose(&[50, 200]);
        if rng.bool(0.3) {
            st.equilibrate_enable = false;
        }
        ctx.nontrivial_hash(p.hash() ^ case);
        check_run(ctx, wl, case, &p, &st, "mixed_badly_scaled");
    }

    // W3: inconsistent dimensions are rejected at construction with the documented panic
    let wl = "dimension_mismatch";
    let total = ctx.count(400, 4000);
    for case in ctx.cases(wl, total) {
        ctx.begin(wl, case);
        let mut rng = Rng::for_case(ctx.seed, "C04/dimension_mismatch", case);
        let mut o = GenOpts { kinds: gen::all_kinds(), ..Default::default() };
        o.nmax = 5;
        o.mmax = 10;
        o.allow_empty_cones = false;
        let mut p = gen::planted(&mut rng, &o).problem;
        let (n, m) = (p.n(), p.m());
        let which = rng.usize(0, 6);
        let expect: &str = match which {
            0 => {
                p.q.push(1.0);
                "incompatible dimensions"
            }
            1 => {
                p.b.push(1.0);
                "incompatible dimensions"
            }
            2 => {
                p.cones.push(ConeT::NonnegativeConeT(1));
                "Constraint dimensions inconsistent with size of cones"
            }
            3 => {
                p.A = Dense::zeros(m + 1, n).to_csc();
                "incompatible dimensions"
            }
            4 => {
                p.A = Dense::zeros(m, n + 1).to_csc();
                "incompatible dimensions"
            }
            5 => {
                p.P = Dense::zeros(n, n + 1).to_csc();
                "P"
            }
            _ => {
                p.P = Dense::zeros(n + 1, n + 1).to_csc();
                "P and q incompatible dimensions"
            }
        };
        let st = gen::default_settings();
        let p2 = p.clone();
        let r = catch(std::panic::AssertUnwindSafe(move || {
            let _s = DefaultSolver::new(&p2.P, &p2.q, &p2.A, &p2.b, &p2.cones, st);
        }));
        ctx.eval(1);
        ctx.nontrivial_n(1);
        match r {
            Ok(()) => ctx.violation("mismatch_not_rejected", &format!("mismatch_not_rejected:{which}"), wl, case, json!({"problem": p.to_json(), "mismatch_kind": which})),
            Err(msg) => {
                if !msg.contains(expect) {
                    ctx.violation("mismatch_wrong_panic", &format!("mismatch_wrong_panic:{which}"), wl, case, json!({"problem": p.to_json(), "mismatch_kind": which, "panic": msg, "expected_substring": expect}));
                } else {
                    ctx.bump(&format!("mismatch_kind_{which}_rejected"));
                }
            }
        }
    }
}

#!/bin/bash
# usage: seed_sweep.sh <first> <last> [checks...]  - unchanged tree, flavour mon, quick tier, in the isolated copy (/tmp/iso);
# prints one line per (seed, check) and the full line for every non-zero exit
a=$1; b=$2; shift 2
checks=${@:-C01 C02 C03 C04 C05 C06 C07 C08 C09 C10 C11 C12 C13 C14 C15 C16 C17 C18 C19 C20}
for sd in $(seq $a $b); do
  VERIF_SEED=$sd nice -n 10 /verif/tools/try_seed_iso.sh none $checks 2>&1 | grep "^seed=" | while read -r line; do
    rc=$(echo "$line" | grep -o "rc=[0-9]*")
    chk=$(echo "$line" | grep -o "check=C[0-9]*")
    if [ "$rc" = "rc=0" ]; then echo "sweep seed=$sd $chk $rc"; else echo "sweep seed=$sd $chk $rc :: $(echo "$line" | cut -c1-400)"; fi
  done
done

//! Problem generators: planted strictly feasible conic QPs (family G, with the
//! generator's own well-posedness classification), strongly primal / dual
//! infeasible problems, degenerate shapes, and the settings sampler.

use crate::cones::*;
use crate::dense::Dense;
use crate::problem::Problem;
use crate::rng::Rng;
use clarabel::solver::DefaultSettings;

#[derive(Clone, Debug)]
pub struct GenOpts {
    pub nmax: usize,
    pub mmax: usize,
    /// allowed cone kinds
    pub kinds: Vec<&'static str>,
    /// log10 magnitude range of data entries
    pub mag_lo: f64,
    pub mag_hi: f64,
    pub allow_empty_cones: bool,
    pub p_full_prob: f64,
    pub psd_max: usize,
    /// upper limit of the number of cones in a generated cone list
    pub max_cones: usize,
}

impl Default for GenOpts {
    fn default() -> Self {
        GenOpts {
            nmax: 20,
            mmax: 60,
            kinds: vec!["Zero", "NN", "SOC", "Exp", "Pow", "GenPow", "PSD"],
            mag_lo: -1.0,
            mag_hi: 1.0,
            allow_empty_cones: true,
            p_full_prob: 0.3,
            psd_max: 5,
            max_cones: 5,
        }
    }
}

pub fn all_kinds() -> Vec<&'static str> {
    let mut k = vec!["Zero", "NN", "SOC", "Exp", "Pow", "GenPow"];
    if cfg!(feature = "sdp") {
        k.push("PSD");
    }
    k
}

pub fn random_alpha_vec(rng: &mut Rng, d1: usize) -> Vec<f64> {
    // exponents summing to one within the constructor's own tolerance |1-sum| < eps*d1/2
    loop {
        let raw: Vec<f64> = (0..d1).map(|_| rng.range(0.2, 1.0)).collect();
        let s: f64 = raw.iter().sum();
        let mut a: Vec<f64> = raw.iter().map(|x| x / s).collect();
        // fix the last entry so that the f64 sum is as close to one as possible
        let head: f64 = a[..d1 - 1].iter().sum();
        a[d1 - 1] = 1.0 - head;
        // half of the vectors sit at the edge of what the constructor accepts: one exponent is nudged by an ulp
        // or two so that the f64 sum is off one by a few 1e-16 (still inside |1-sum| < eps*d1/2)
        if rng.bool(0.5) {
            let k = rng.usize(0, d1 - 1);
            let nudge = *rng.choose(&[1.0, -1.0, 2.0, -2.0]) * f64::EPSILON * 0.5;
            a[k] += nudge;
        }
        let sum: f64 = a.iter().sum();
        if a[d1 - 1] > 0.05 && a.iter().all(|v| *v > 0.0) && (1.0 - sum).abs() < f64::EPSILON * d1 as f64 * 0.5 {
            return a;
        }
    }
}

pub fn random_cone(rng: &mut Rng, kind: &str, room: usize, o: &GenOpts) -> Option<ConeT> {
    let c = match kind {
        "Zero" => ConeT::ZeroConeT(rng.usize(if o.allow_empty_cones { 0 } else { 1 }, room.min(4))),
        "NN" => ConeT::NonnegativeConeT(rng.usize(if o.allow_empty_cones { 0 } else { 1 }, room.min(8))),
        "SOC" => {
            // "empty or singleton cones" holds for every kind with a dimension argument: SOC(0) and SOC(1) too
            let lo = if o.allow_empty_cones && rng.bool(0.1) { rng.usize(0, 1) } else { 2 };
            let d = *rng.choose(&[lo, 2, 3, 4, 5, 6, 8, 12]);
            ConeT::SecondOrderConeT(d.min(room.max(lo)))
        }
        "Exp" => ConeT::ExponentialConeT(),
        "Pow" => {
            let r = rng.range(0.05, 0.95);
            ConeT::PowerConeT(*rng.choose(&[0.5, 0.3, 0.8, 0.1, 0.95, r]))
        }
        "GenPow" => {
            let d1 = rng.usize(2, 4);
            let d2 = rng.usize(1, 3);
            ConeT::GenPowerConeT(random_alpha_vec(rng, d1), d2)
        }
        #[cfg(feature = "sdp")]
        "PSD" => {
            let lo = if o.allow_empty_cones && rng.bool(0.1) { rng.usize(0, 1) } else { 2 };
            ConeT::PSDTriangleConeT(rng.usize(lo, o.psd_max))
        }
        _ => return None,
    };
    if cone_dim(&c) > room && room > 0 {
        return None;
    }
    Some(c)
}

pub fn random_cone_list(rng: &mut Rng, o: &GenOpts) -> Vec<ConeT> {
    let mut cs = vec![];
    // mostly a handful of cones; one list in eight is long (index maps, headers and per-cone loops see more
    // than five blocks of a kind)
    let ncones = if rng.bool(0.125) { rng.usize(6, o.max_cones.max(5) + 8) } else { rng.usize(1, o.max_cones.max(1)) };
    let mut room = o.mmax;
    for _ in 0..ncones {
        let k = *rng.choose(&o.kinds);
        if let Some(c) = random_cone(rng, k, room, o) {
            room = room.saturating_sub(cone_dim(&c));
            cs.push(c);
        }
        if room == 0 {
            break;
        }
    }
    cs
}

pub fn random_sparse(rng: &mut Rng, m: usize, n: usize, dens: f64, lo: f64, hi: f64) -> Dense {
    let mut d = Dense::zeros(m, n);
    for i in 0..m {
        for j in 0..n {
            if rng.bool(dens) {
                d.set(i, j, rng.logmag(lo, hi));
            }
        }
    }
    d
}

/// random PSD matrix P = G'G (possibly rank deficient), returned dense symmetric
pub fn random_psd(rng: &mut Rng, n: usize, lo: f64, hi: f64) -> Dense {
    let r = rng.usize(0, n);
    if r == 0 || rng.bool(0.25) {
        return Dense::zeros(n, n);
    }
    let dn = rng.range(0.2, 0.8);
    let g = random_sparse(rng, r, n, dn, lo / 2.0, hi / 2.0);
    let mut p = Dense::zeros(n, n);
    for i in 0..n {
        for j in 0..=i {
            let mut s = 0.0;
            for k in 0..r {
                s += g.get(k, i) * g.get(k, j);
            }
            p.set(i, j, s);
            p.set(j, i, s);
        }
    }
    p
}

/// triu (or full symmetric, exactly symmetric values) CSC of a dense symmetric matrix
pub fn p_to_csc(p: &Dense, full: bool) -> clarabel::algebra::CscMatrix<f64> {
    let n = p.n;
    let mut t = p.clone();
    if !full {
        for i in 0..n {
            for j in 0..i {
                t.set(i, j, 0.0);
            }
        }
    }
    t.to_csc()
}

#[derive(Clone, Debug)]
pub struct Planted {
    pub problem: Problem,
    pub x0: Vec<f64>,
    pub s0: Vec<f64>,
    pub z0: Vec<f64>,
    /// p(x0) and d(x0,z0): every optimal value lies in [d0, p0]
    pub p0: f64,
    pub d0: f64,
    /// generator's own classification: equality rows independent and [P;A] of full column rank
    pub well_posed: bool,
    pub cond_note: String,
}

/// classify well-posedness with the harness's own SVD
pub fn classify(p: &Problem) -> (bool, String) {
    let a = Dense::from_csc(&p.A);
    let ps = p.P_sym();
    let n = p.n();
    let m = p.m();
    // equality rows
    let mut eqrows = vec![];
    for (c, r) in p.cones.iter().zip(cone_ranges(&p.cones)) {
        if matches!(c, ConeT::ZeroConeT(_)) {
            eqrows.extend(r);
        }
    }
    if !eqrows.is_empty() {
        if eqrows.len() > n {
            return (false, "more equality rows than variables".into());
        }
        let mut e = Dense::zeros(eqrows.len(), n);
        for (k, &i) in eqrows.iter().enumerate() {
            for j in 0..n {
                e.set(k, j, a.get(i, j));
            }
        }
        let sv = e.singular_values();
        let (mx, mn) = (sv[0], *sv.last().unwrap());
        if !(mn > 1e-6 * mx) || mx == 0.0 {
            return (false, format!("equality rows nearly dependent (smin/smax={:.2e})", mn / mx.max(1e-300)));
        }
    }
    // [P;A] full column rank
    let mut st = Dense::zeros(n + m, n);
    for i in 0..n {
        for j in 0..n {
            st.set(i, j, ps.get(i, j));
        }
    }
    for i in 0..m {
        for j in 0..n {
            st.set(n + i, j, a.get(i, j));
        }
    }
    let sv = st.singular_values();
    if sv.is_empty() {
        return (true, String::new());
    }
    let (mx, mn) = (sv[0], if sv.len() < n { 0.0 } else { *sv.last().unwrap() });
    if !(mn > 1e-6 * mx) {
        return (false, format!("[P;A] nearly rank deficient (smin/smax={:.2e})", mn / mx.max(1e-300)));
    }
    (true, String::new())
}

/// family G: planted strictly feasible conic QP
pub fn planted(rng: &mut Rng, o: &GenOpts) -> Planted {
    let cones = random_cone_list(rng, o);
    let m = total_dim(&cones);
    let n = rng.usize(1, o.nmax);
    let dens = *rng.choose(&[0.15, 0.3, 0.6, 1.0]);
    let mut a = random_sparse(rng, m, n, dens, o.mag_lo, o.mag_hi);
    // occasional zero rows / columns / duplicated rows (scalar cones only for duplicates)
    if m > 0 && rng.bool(0.1) {
        let i = rng.usize(0, m - 1);
        for j in 0..n {
            a.set(i, j, 0.0);
        }
    }
    if rng.bool(0.05) {
        let j = rng.usize(0, n - 1);
        for i in 0..m {
            a.set(i, j, 0.0);
        }
    }
    let pd = random_psd(rng, n, o.mag_lo, o.mag_hi);
    let full = rng.bool(o.p_full_prob);
    let mag = rng.logpos(-0.5, 0.5);
    let depth = *rng.choose(&[1.0, 0.5, 0.1]);
    let x0: Vec<f64> = (0..n).map(|_| rng.range(-1.0, 1.0) * mag).collect();
    let mut s0 = vec![];
    let mut z0 = vec![];
    for c in &cones {
        s0.extend(sample_interior(c, rng, false, mag, depth));
        z0.extend(sample_interior(c, rng, true, mag, depth));
    }
    let ax = a.matvec(&x0);
    let b: Vec<f64> = (0..m).map(|i| ax[i] + s0[i]).collect();
    let px = pd.matvec(&x0);
    let atz = a.tmatvec(&z0);
    let q: Vec<f64> = (0..n).map(|j| -px[j] - atz[j]).collect();
    let problem = Problem { P: p_to_csc(&pd, full), q: q.clone(), A: a.to_csc(), b: b.clone(), cones };
    let xpx: f64 = (0..n).map(|j| px[j] * x0[j]).sum();
    let p0 = 0.5 * xpx + q.iter().zip(&x0).map(|(a, b)| a * b).sum::<f64>();
    let d0 = -b.iter().zip(&z0).map(|(a, b)| a * b).sum::<f64>() - 0.5 * xpx;
    let (well_posed, cond_note) = classify(&problem);
    Planted { problem, x0, s0, z0, p0, d0, well_posed, cond_note }
}

/// a well-posed member of family G (rejection sampling on the generator's own classification)
pub fn planted_wellposed(rng: &mut Rng, o: &GenOpts) -> Planted {
    for _ in 0..200 {
        let p = planted(rng, o);
        if p.well_posed && p.problem.m() > 0 {
            return p;
        }
    }
    // fall back: an LP with identity-like structure is always well posed
    let mut o2 = o.clone();
    o2.kinds = vec!["NN"];
    o2.allow_empty_cones = false;
    loop {
        let p = planted(rng, &o2);
        if p.well_posed {
            return p;
        }
    }
}

/// strongly primal infeasible: exists zbar in int K* with A'zbar = 0, b'zbar = -1
pub fn primal_infeasible(rng: &mut Rng, o: &GenOpts) -> (Problem, Vec<f64>) {
    loop {
        let mut o2 = o.clone();
        o2.allow_empty_cones = false;
        let cones = random_cone_list(rng, &o2);
        let m = total_dim(&cones);
        if m < 2 {
            continue;
        }
        let n = rng.usize(1, o.nmax.min(m - 1).max(1));
        let mut zbar = vec![];
        for c in &cones {
            zbar.extend(sample_interior(c, rng, true, 1.0, 1.0));
        }
        let zz: f64 = zbar.iter().map(|x| x * x).sum();
        if zz < 1e-12 {
            continue;
        }
        // project every column of A onto the orthogonal complement of zbar
        let dn = *rng.choose(&[0.3, 0.7, 1.0]);
        let mut a = random_sparse(rng, m, n, dn, o.mag_lo, o.mag_hi);
        for j in 0..n {
            let mut d = 0.0;
            for i in 0..m {
                d += a.get(i, j) * zbar[i];
            }
            for i in 0..m {
                a.add(i, j, -d * zbar[i] / zz);
            }
        }
        // b with b'zbar = -1 (scaled)
        let mut b: Vec<f64> = (0..m).map(|_| rng.range(-1.0, 1.0)).collect();
        let bz: f64 = b.iter().zip(&zbar).map(|(a, b)| a * b).sum();
        let shift = (-1.0 - bz) / zz;
        for i in 0..m {
            b[i] += shift * zbar[i];
        }
        let pd = random_psd(rng, n, o.mag_lo, o.mag_hi);
        // dual strictly feasible by construction (q = -P u - A'w with w in int K*): the problem is primal
        // infeasible ONLY.  With a random q the instance can be dual infeasible as well (a zero column of A with a
        // nonzero cost is enough), and for problems infeasible both ways the homogeneous embedding promises nothing
        // (seen: iterates collapsing to zero and `Solved` at x/tau ~ 1e9).
        let u: Vec<f64> = (0..n).map(|_| rng.range(-1.0, 1.0)).collect();
        let mut w = vec![];
        for c in &cones {
            w.extend(sample_interior(c, rng, true, 1.0, 1.0));
        }
        let pu = pd.matvec(&u);
        let atw = a.tmatvec(&w);
        let q: Vec<f64> = (0..n).map(|j| -pu[j] - atw[j]).collect();
        let p = Problem { P: p_to_csc(&pd, rng.bool(o.p_full_prob)), q, A: a.to_csc(), b, cones };
        return (p, zbar);
    }
}

/// strongly dual infeasible (primal feasible, unbounded): xbar with P xbar = 0,
/// A xbar + sbar = 0, sbar in int K, q'xbar = -1
pub fn dual_infeasible(rng: &mut Rng, o: &GenOpts) -> (Problem, Vec<f64>) {
    loop {
        let mut o2 = o.clone();
        o2.allow_empty_cones = false;
        // zero cones make "sbar in int K" vacuous; keep them out of this family
        o2.kinds.retain(|k| *k != "Zero");
        let cones = random_cone_list(rng, &o2);
        let m = total_dim(&cones);
        if m == 0 {
            continue;
        }
        let n = rng.usize(2, o.nmax.max(2));
        let xbar: Vec<f64> = (0..n).map(|_| rng.range(-1.0, 1.0)).collect();
        let xx: f64 = xbar.iter().map(|x| x * x).sum();
        if xx < 1e-6 {
            continue;
        }
        let mut sbar = vec![];
        for c in &cones {
            sbar.extend(sample_interior(c, rng, false, 1.0, 1.0));
        }
        // A with A xbar = -sbar :  A = A0 - (A0 xbar + sbar) xbar'/xx
        let dn = *rng.choose(&[0.3, 0.7, 1.0]);
        let mut a = random_sparse(rng, m, n, dn, o.mag_lo, o.mag_hi);
        let ax = a.matvec(&xbar);
        for i in 0..m {
            let r = ax[i] + sbar[i];
            for j in 0..n {
                a.add(i, j, -r * xbar[j] / xx);
            }
        }
        // P = G'G with G xbar = 0
        let mut pd = Dense::zeros(n, n);
        if rng.bool(0.6) {
            let r = rng.usize(1, n);
            let mut g = random_sparse(rng, r, n, 0.6, o.mag_lo / 2.0, o.mag_hi / 2.0);
            for k in 0..r {
                let mut d = 0.0;
                for j in 0..n {
                    d += g.get(k, j) * xbar[j];
                }
                for j in 0..n {
                    g.add(k, j, -d * xbar[j] / xx);
                }
            }
            for i in 0..n {
                for j in 0..=i {
                    let mut s = 0.0;
                    for k in 0..r {
                        s += g.get(k, i) * g.get(k, j);
                    }
                    pd.set(i, j, s);
                    pd.set(j, i, s);
                }
            }
        }
        // q with q'xbar = -1
        let mut q: Vec<f64> = (0..n).map(|_| rng.range(-1.0, 1.0)).collect();
        let qx: f64 = q.iter().zip(&xbar).map(|(a, b)| a * b).sum();
        let shift = (-1.0 - qx) / xx;
        for j in 0..n {
            q[j] += shift * xbar[j];
        }
        // primal feasible: b = A x1 + s1 with s1 in int K
        let x1: Vec<f64> = (0..n).map(|_| rng.range(-1.0, 1.0)).collect();
        let mut s1 = vec![];
        for c in &cones {
            s1.extend(sample_interior(c, rng, false, 1.0, 1.0));
        }
        let ax1 = a.matvec(&x1);
        let b: Vec<f64> = (0..m).map(|i| ax1[i] + s1[i]).collect();
        let p = Problem { P: p_to_csc(&pd, rng.bool(o.p_full_prob)), q, A: a.to_csc(), b, cones };
        return (p, xbar);
    }
}

/// settings sampler (documented-valid ranges only)
pub fn random_settings(rng: &mut Rng, allow_faer: bool) -> DefaultSettings<f64> {
    let mut s = DefaultSettings::<f64>::default();
    s.verbose = false;
    if rng.bool(0.5) {
        let t = *rng.choose(&[1e-6, 1e-7, 1e-8, 1e-9]);
        s.tol_gap_abs = t;
        s.tol_gap_rel = t;
        s.tol_feas = *rng.choose(&[1e-6, 1e-7, 1e-8, 1e-9]);
    }
    if rng.bool(0.35) {
        // infeasibility tolerances, independently of each other (they default to the same value,
        // which would hide a mix-up between them)
        s.tol_infeas_abs = rng.logpos(-10.0, -2.0);
        s.tol_infeas_rel = rng.logpos(-10.0, -4.0);
        s.reduced_tol_infeas_abs = s.tol_infeas_abs * rng.logpos(-4.0, -1.0);
        s.reduced_tol_infeas_rel = (s.tol_infeas_rel * rng.logpos(1.0, 4.0)).min(1e-2);
        s.tol_ktratio = rng.logpos(-6.0, 2.0);
        s.reduced_tol_ktratio = (s.tol_ktratio * 100.0).min(1e3);
    }
    if rng.bool(0.3) {
        // reduced ("almost") tolerances, independently of each other
        s.reduced_tol_gap_abs = s.tol_gap_abs * rng.logpos(0.5, 5.0);
        s.reduced_tol_gap_rel = s.tol_gap_rel * rng.logpos(0.5, 5.0);
        s.reduced_tol_feas = s.tol_feas * rng.logpos(0.5, 5.0);
    }
    if rng.bool(0.3) {
        s.equilibrate_enable = false;
    } else if rng.bool(0.4) {
        s.equilibrate_max_iter = *rng.choose(&[0, 1, 3, 10, 20]);
        let (lo, hi) = *rng.choose(&[(1e-4, 1e4), (1e-2, 1e2), (1.0, 1.0), (1e-8, 1e8)]);
        s.equilibrate_min_scaling = lo;
        s.equilibrate_max_scaling = hi;
    }
    s.presolve_enable = rng.bool(0.7);
    if rng.bool(0.2) {
        s.static_regularization_enable = false;
    }
    if rng.bool(0.2) {
        s.dynamic_regularization_enable = false;
    }
    if rng.bool(0.2) {
        s.iterative_refinement_enable = false;
    }
    let methods: &[&str] = if allow_faer && cfg!(feature = "faer") { &["qdldl", "auto", "faer"] } else { &["qdldl", "auto"] };
    s.direct_solve_method = rng.choose(methods).to_string();
    if rng.bool(0.3) {
        s.max_threads = *rng.choose(&[1, 2, 4]);
    } else {
        s.max_threads = 1;
    }
    if rng.bool(0.2) {
        s.max_step_fraction = *rng.choose(&[0.5, 0.9, 0.999]);
    }
    #[cfg(feature = "sdp")]
    {
        s.chordal_decomposition_enable = false;
    }
    s
}

pub fn default_settings() -> DefaultSettings<f64> {
    let mut s = DefaultSettings::<f64>::default();
    s.verbose = false;
    s.max_threads = 1;
    #[cfg(feature = "sdp")]
    {
        s.chordal_decomposition_enable = false;
    }
    s
}

//! C16 — sparse-matrix operations agree with their dense meaning.
//!
//! Oracle: a dense row-major model with small-integer entries (all arithmetic
//! exact => exact equality) for the exhaustive part, 1e-13 relative for random
//! floats; every returned matrix must satisfy the harness's own canonicality
//! predicate; `check_format` must accept an encoding iff that predicate holds.

use clarabel::algebra::*;
use serde_json::json;
use vkit::dense::{is_canonical_csc, Dense};
use vkit::report::catch;
use vkit::{Ctx, Rng};

const P: &str = "C16";

fn csc_json(c: &CscMatrix<f64>) -> serde_json::Value {
    json!({"m": c.m, "n": c.n, "colptr": c.colptr, "rowval": c.rowval, "nzval": c.nzval})
}

struct T<'a> {
    ctx: &'a mut Ctx,
    wl: &'a str,
    case: u64,
    exact: bool,
}

impl T<'_> {
    fn tol_eq(&self, a: f64, b: f64, scale: f64) -> bool {
        if self.exact {
            a == b || (a.is_nan() && b.is_nan())
        } else {
            (a - b).abs() <= 1e-13 * scale.max(1e-300) || a == b
        }
    }
    fn fail(&mut self, oracle: &str, detail: serde_json::Value) {
        let sig = oracle.to_string();
        self.ctx.violation(oracle, &sig, self.wl, self.case, detail);
    }
    /// result matrix: canonical and equal to the dense model
    fn mat(&mut self, oracle: &str, got: &CscMatrix<f64>, want: &Dense, input: &serde_json::Value) {
        self.ctx.eval(1);
        if !is_canonical_csc(got) {
            self.fail(&format!("{oracle}:not-canonical"), json!({"input": input, "got": csc_json(got)}));
            return;
        }
        if got.m != want.m || got.n != want.n {
            self.fail(&format!("{oracle}:shape"), json!({"input": input, "got": csc_json(got), "want_shape": [want.m, want.n]}));
            return;
        }
        let d = Dense::from_csc(got);
        let sc = want.max_abs();
        for k in 0..d.a.len() {
            if !self.tol_eq(d.a[k], want.a[k], sc) {
                self.fail(&format!("{oracle}:value"), json!({"input": input, "got": csc_json(got), "want_dense_rowmajor": want.a}));
                return;
            }
        }
    }
    fn vec(&mut self, oracle: &str, got: &[f64], want: &[f64], input: &serde_json::Value) {
        self.ctx.eval(1);
        if got.len() != want.len() {
            self.fail(&format!("{oracle}:len"), json!({"input": input, "got": got, "want": want}));
            return;
        }
        let sc = want.iter().fold(0.0f64, |m, x| m.max(x.abs()));
        for k in 0..got.len() {
            if !self.tol_eq(got[k], want[k], sc) {
                self.fail(&format!("{oracle}:value"), json!({"input": input, "got": got, "want": want}));
                return;
            }
        }
    }
    fn scalar(&mut self, oracle: &str, got: f64, want: f64, scale: f64, input: &serde_json::Value) {
        self.ctx.eval(1);
        if !self.tol_eq(got, want, scale) {
            self.fail(&format!("{oracle}:value"), json!({"input": input, "got": got, "want": want}));
        }
    }
    fn truth(&mut self, oracle: &str, ok: bool, input: &serde_json::Value) {
        self.ctx.eval(1);
        if !ok {
            self.fail(oracle, json!({"input": input}));
        }
    }
}

fn rows_of(d: &Dense) -> Vec<Vec<f64>> {
    (0..d.m).map(|i| (0..d.n).map(|j| d.get(i, j)).collect()).collect()
}

fn int_vec(rng: &mut Rng, n: usize, exact: bool) -> Vec<f64> {
    (0..n).map(|_| if exact { rng.small_int_val(3) } else { rng.logmag(-3.0, 3.0) }).collect()
}

/// the whole operation battery on one matrix given as dense model + stored pattern
fn battery(t: &mut T, rng: &mut Rng, d: &Dense, pat: &[bool]) {
    let (m, n) = (d.m, d.n);
    let exact = t.exact;
    let M = d.to_csc_pattern(pat);
    let inp = csc_json(&M);

    // ---- construction from rows (only when the pattern is exactly the nonzeros)
    if (0..m * n).all(|k| pat[k] == (d.a[k] != 0.0)) && m > 0 {
        let rows = rows_of(d);
        let got: CscMatrix<f64> = CscMatrix::from(rows.iter().map(|r| r.iter()));
        t.mat("from_rows", &got, d, &inp);
        t.truth("from_rows:equals-model-encoding", got == M, &inp);
    }
    // ---- check_format accepts canonical
    t.truth("check_format:rejects-canonical", M.check_format().is_ok(), &inp);

    // ---- sizes
    t.truth("nnz", M.nnz() == pat.iter().filter(|&&p| p).count(), &inp);

    // ---- transpose
    {
        let got: CscMatrix<f64> = M.t().into();
        t.mat("transpose", &got, &d.transpose(), &inp);
        // structural zeros must be kept: pattern of transpose = transpose of pattern
        let pt = Dense::pattern_of(&got);
        let ok = (0..m).all(|i| (0..n).all(|j| pt[j * m + i] == pat[i * n + j]));
        t.truth("transpose:pattern", ok, &inp);
    }

    // ---- is_triu / to_triu
    if m == n {
        let want_triu = (0..m).all(|i| (0..n).all(|j| !(i > j && pat[i * n + j])));
        t.truth("is_triu", M.is_triu() == want_triu, &inp);
        let mut dt = d.clone();
        for i in 0..m {
            for j in 0..i {
                dt.set(i, j, 0.0);
            }
        }
        let got = M.to_triu();
        t.mat("to_triu", &got, &dt, &inp);
        let pg = Dense::pattern_of(&got);
        let ok = (0..m).all(|i| (0..n).all(|j| pg[i * n + j] == (pat[i * n + j] && i <= j)));
        t.truth("to_triu:pattern", ok, &inp);
        t.truth("to_triu:is_triu", got.is_triu(), &inp);
    }

    // ---- select_rows over all masks (exhaustive up to 4 rows, sampled beyond)
    {
        let nmask: u64 = if m <= 4 { 1 << m } else { 6 };
        for mk in 0..nmask {
            let mask: Vec<bool> = if m <= 4 { (0..m).map(|i| (mk >> i) & 1 == 1).collect() } else { (0..m).map(|_| rng.bool(0.5)).collect() };
            let kept: Vec<usize> = (0..m).filter(|&i| mask[i]).collect();
            let mut want = Dense::zeros(kept.len(), n);
            for (r, &i) in kept.iter().enumerate() {
                for j in 0..n {
                    want.set(r, j, d.get(i, j));
                }
            }
            let got = M.select_rows(&mask);
            let inp2 = json!({"M": inp, "mask": mask});
            t.mat("select_rows", &got, &want, &inp2);
            let pg = Dense::pattern_of(&got);
            let ok = got.m == kept.len() && kept.iter().enumerate().all(|(r, &i)| (0..n).all(|j| pg[r * n + j] == pat[i * n + j]));
            t.truth("select_rows:pattern", ok, &inp2);
        }
    }

    // ---- get_entry / set_entry / index_to_coord
    for i in 0..m {
        for j in 0..n {
            let got = M.get_entry((i, j));
            let want = if pat[i * n + j] { Some(d.get(i, j)) } else { None };
            t.truth("get_entry", got == want, &json!({"M": inp, "idx": [i, j], "got": got}));
            for &v in &[0.0, 7.0] {
                let mut M2 = M.clone();
                M2.set_entry((i, j), v);
                let mut want = d.clone();
                let mut wpat = pat.to_vec();
                if pat[i * n + j] || v != 0.0 {
                    want.set(i, j, v);
                    wpat[i * n + j] = true;
                }
                let inp2 = json!({"M": inp, "idx": [i, j], "value": v});
                t.mat("set_entry", &M2, &want, &inp2);
                t.truth("set_entry:pattern", Dense::pattern_of(&M2) == wpat, &inp2);
            }
        }
    }
    for k in 0..M.nnz() {
        let (r, c) = M.index_to_coord(k);
        let ok = c < n && M.colptr[c] <= k && k < M.colptr[c + 1] && r == M.rowval[k];
        t.truth("index_to_coord", ok, &json!({"M": inp, "idx": k, "got": [r, c]}));
    }

    // ---- dropzeros: zero some stored entries first
    {
        let mut M2 = M.clone();
        for k in 0..M2.nzval.len() {
            if rng.bool(0.4) {
                M2.nzval[k] = 0.0;
            }
        }
        let want = Dense::from_csc(&M2);
        let inp2 = csc_json(&M2);
        M2.dropzeros();
        t.mat("dropzeros", &M2, &want, &inp2);
        t.truth("dropzeros:no-zeros-left", M2.nzval.iter().all(|v| *v != 0.0), &inp2);
    }

    // ---- gemv N / T
    let coefs: &[f64] = if exact { &[0.0, 1.0, -1.0, 2.0] } else { &[0.0, 1.0, -1.0, 0.37] };
    for &a in coefs {
        for &b in coefs {
            let x = int_vec(rng, n, exact);
            let y0 = int_vec(rng, m, exact);
            let ax = d.matvec(&x);
            let want: Vec<f64> = (0..m).map(|i| a * ax[i] + b * y0[i]).collect();
            let mut y = y0.clone();
            clarabel::verif::gemv(&M, false, &mut y, &x, a, b);
            t.vec("gemv_N", &y, &want, &json!({"M": inp, "x": x, "y": y0, "a": a, "b": b}));
            if b == 0.0 {
                // b = 0 means "overwrite": whatever the output buffer held - NaN and infinities included - is gone
                let mut y: Vec<f64> = (0..m).map(|i| [f64::NAN, f64::INFINITY, f64::NEG_INFINITY, 1e300][i % 4]).collect();
                let want0: Vec<f64> = (0..m).map(|i| a * ax[i]).collect();
                clarabel::verif::gemv(&M, false, &mut y, &x, a, 0.0);
                t.vec("gemv_N:dirty_output_buffer", &y, &want0, &json!({"M": inp, "x": x, "a": a, "b": 0.0}));
            }

            let x = int_vec(rng, m, exact);
            let y0 = int_vec(rng, n, exact);
            let atx = d.tmatvec(&x);
            let want: Vec<f64> = (0..n).map(|i| a * atx[i] + b * y0[i]).collect();
            let mut y = y0.clone();
            clarabel::verif::gemv(&M, true, &mut y, &x, a, b);
            t.vec("gemv_T", &y, &want, &json!({"M": inp, "x": x, "y": y0, "a": a, "b": b}));
            if b == 0.0 {
                let mut y: Vec<f64> = (0..n).map(|i| [f64::NAN, f64::INFINITY, f64::NEG_INFINITY, 1e300][i % 4]).collect();
                let want0: Vec<f64> = (0..n).map(|i| a * atx[i]).collect();
                clarabel::verif::gemv(&M, true, &mut y, &x, a, 0.0);
                t.vec("gemv_T:dirty_output_buffer", &y, &want0, &json!({"M": inp, "x": x, "a": a, "b": 0.0}));
            }
        }
    }

    // ---- symmetric ops on the triu part
    if m == n {
        let Mt = M.to_triu();
        let dt = Dense::from_csc(&Mt);
        let ds = dt.sym_from_triu();
        let inpt = csc_json(&Mt);
        for &a in coefs {
            for &b in coefs {
                let x = int_vec(rng, n, exact);
                let y0 = int_vec(rng, n, exact);
                let sx = ds.matvec(&x);
                let want: Vec<f64> = (0..n).map(|i| a * sx[i] + b * y0[i]).collect();
                let mut y = y0.clone();
                clarabel::verif::symv(&Mt, &mut y, &x, a, b);
                t.vec("symv", &y, &want, &json!({"M": inpt, "x": x, "y": y0, "a": a, "b": b}));
                if b == 0.0 {
                    let mut y: Vec<f64> = (0..n).map(|i| [f64::NAN, f64::INFINITY, f64::NEG_INFINITY, 1e300][i % 4]).collect();
                    let want0: Vec<f64> = (0..n).map(|i| a * sx[i]).collect();
                    clarabel::verif::symv(&Mt, &mut y, &x, a, 0.0);
                    t.vec("symv:dirty_output_buffer", &y, &want0, &json!({"M": inpt, "x": x, "a": a, "b": 0.0}));
                }
            }
        }
        let x = int_vec(rng, n, exact);
        let y = int_vec(rng, n, exact);
        let sx = ds.matvec_dd(&x);
        let mut q = vkit::DD::ZERO;
        let mut sc = 0.0;
        for i in 0..n {
            q = q + sx[i] * vkit::DD::new(y[i]);
            sc += (sx[i].f() * y[i]).abs();
        }
        t.scalar("quad_form", Mt.quad_form(&y, &x), q.f(), sc, &json!({"M": inpt, "x": x, "y": y}));
        // col_norms_sym
        let mut want = vec![0.0; n];
        for i in 0..n {
            for j in 0..n {
                want[j] = f64::max(want[j], ds.get(i, j).abs());
            }
        }
        let mut got = vec![9.0; n];
        Mt.col_norms_sym(&mut got);
        t.vec("col_norms_sym", &got, &want, &inpt);
        let pre: Vec<f64> = (0..n).map(|_| rng.usize(0, 3) as f64).collect();
        let mut got = pre.clone();
        Mt.col_norms_sym_no_reset(&mut got);
        let want2: Vec<f64> = (0..n).map(|j| want[j].max(pre[j])).collect();
        t.vec("col_norms_sym_no_reset", &got, &want2, &json!({"M": inpt, "pre": pre}));
    }

    // ---- sums and norms
    {
        let mut cs = vec![0.0; n];
        let mut rs = vec![0.0; m];
        let mut cn = vec![0.0; n];
        let mut rn = vec![0.0; m];
        for i in 0..m {
            for j in 0..n {
                let v = d.get(i, j);
                cs[j] += v;
                rs[i] += v;
                cn[j] = f64::max(cn[j], v.abs());
                rn[i] = f64::max(rn[i], v.abs());
            }
        }
        let mut g = vec![5.0; n];
        M.col_sums(&mut g);
        t.vec("col_sums", &g, &cs, &inp);
        let mut g = vec![5.0; m];
        M.row_sums(&mut g);
        t.vec("row_sums", &g, &rs, &inp);
        let mut g = vec![5.0; n];
        M.col_norms(&mut g);
        t.vec("col_norms", &g, &cn, &inp);
        let mut g = vec![5.0; m];
        M.row_norms(&mut g);
        t.vec("row_norms", &g, &rn, &inp);
        let pre: Vec<f64> = (0..n).map(|_| rng.usize(0, 3) as f64).collect();
        let mut g = pre.clone();
        M.col_norms_no_reset(&mut g);
        let w: Vec<f64> = (0..n).map(|j| cn[j].max(pre[j])).collect();
        t.vec("col_norms_no_reset", &g, &w, &json!({"M": inp, "pre": pre}));
        let pre: Vec<f64> = (0..m).map(|_| rng.usize(0, 3) as f64).collect();
        let mut g = pre.clone();
        M.row_norms_no_reset(&mut g);
        let w: Vec<f64> = (0..m).map(|i| rn[i].max(pre[i])).collect();
        t.vec("row_norms_no_reset", &g, &w, &json!({"M": inp, "pre": pre}));
    }

    // ---- scalings
    {
        let l = int_vec(rng, m, exact);
        let r = int_vec(rng, n, exact);
        let c = if exact { 3.0 } else { 0.77 };
        let mk = |f: &dyn Fn(usize, usize) -> f64| {
            let mut w = Dense::zeros(m, n);
            for i in 0..m {
                for j in 0..n {
                    w.set(i, j, d.get(i, j) * f(i, j));
                }
            }
            w
        };
        let inp2 = json!({"M": inp, "l": l, "r": r, "c": c});
        let mut M2 = M.clone();
        M2.lscale(&l);
        t.mat("lscale", &M2, &mk(&|i, _| l[i]), &inp2);
        let mut M2 = M.clone();
        M2.rscale(&r);
        t.mat("rscale", &M2, &mk(&|_, j| r[j]), &inp2);
        let mut M2 = M.clone();
        M2.lrscale(&l, &r);
        t.mat("lrscale", &M2, &mk(&|i, j| l[i] * r[j]), &inp2);
        t.truth("lrscale:pattern", M2.is_equal_sparsity(&M), &inp2);
        let mut M2 = M.clone();
        M2.scale(c);
        t.mat("scale", &M2, &mk(&|_, _| c), &inp2);
        let mut M2 = M.clone();
        M2.negate();
        t.mat("negate", &M2, &mk(&|_, _| -1.0), &inp2);
    }

    // ---- sparsity comparison
    {
        let mut M2 = M.clone();
        for v in M2.nzval.iter_mut() {
            *v += 1.0;
        }
        t.truth("is_equal_sparsity:same", M.is_equal_sparsity(&M2) && M.check_equal_sparsity(&M2).is_ok(), &inp);
        if M.nnz() > 0 {
            let k = rng.usize(0, M.nnz() - 1);
            let (i, j) = M.index_to_coord(k);
            let mut d3 = d.clone();
            let mut p3 = pat.to_vec();
            p3[i * n + j] = false;
            d3.set(i, j, 0.0);
            let M3 = d3.to_csc_pattern(&p3);
            t.truth("is_equal_sparsity:different", !M.is_equal_sparsity(&M3) && M.check_equal_sparsity(&M3).is_err(), &inp);
        }
    }
}

fn concat_battery(t: &mut T, rng: &mut Rng, exact: bool, maxdim: usize) {
    // random small block shapes, incl. empty blocks and mismatches
    let rand_block = |rng: &mut Rng, m: usize, n: usize| -> (Dense, Vec<bool>) {
        let mut d = Dense::zeros(m, n);
        let mut p = vec![false; m * n];
        for k in 0..m * n {
            if rng.bool(0.5) {
                p[k] = true;
                d.a[k] = if exact { rng.small_int_val(3) } else { rng.logmag(-2.0, 2.0) };
            }
        }
        (d, p)
    };
    let place = |dst: &mut Dense, src: &Dense, r0: usize, c0: usize| {
        for i in 0..src.m {
            for j in 0..src.n {
                dst.set(r0 + i, c0 + j, src.get(i, j));
            }
        }
    };
    // hcat / vcat
    for _ in 0..4 {
        let (m1, n1, m2, n2) = (rng.usize(0, maxdim), rng.usize(0, maxdim), rng.usize(0, maxdim), rng.usize(0, maxdim));
        let (a, pa) = rand_block(rng, m1, n1);
        let (b, pb) = rand_block(rng, m2, n2);
        let (A, B) = (a.to_csc_pattern(&pa), b.to_csc_pattern(&pb));
        let inp = json!({"A": csc_json(&A), "B": csc_json(&B)});
        let r = CscMatrix::hcat(&A, &B);
        if m1 == m2 {
            let mut w = Dense::zeros(m1, n1 + n2);
            place(&mut w, &a, 0, 0);
            place(&mut w, &b, 0, n1);
            match r {
                Ok(g) => {
                    t.mat("hcat", &g, &w, &inp);
                    t.truth("hcat:nnz", g.nnz() == A.nnz() + B.nnz(), &inp);
                }
                Err(_) => t.truth("hcat:err-on-compatible", false, &inp),
            }
        } else {
            t.truth("hcat:ok-on-mismatch", r.is_err(), &inp);
        }
        let r = CscMatrix::vcat(&A, &B);
        if n1 == n2 {
            let mut w = Dense::zeros(m1 + m2, n1);
            place(&mut w, &a, 0, 0);
            place(&mut w, &b, m1, 0);
            match r {
                Ok(g) => {
                    t.mat("vcat", &g, &w, &inp);
                    t.truth("vcat:nnz", g.nnz() == A.nnz() + B.nnz(), &inp);
                }
                Err(_) => t.truth("vcat:err-on-compatible", false, &inp),
            }
        } else {
            t.truth("vcat:ok-on-mismatch", r.is_err(), &inp);
        }
        // blockdiag of 1..3 blocks
        let (m3, n3) = (rng.usize(0, maxdim), rng.usize(0, maxdim));
        let (c, pc) = rand_block(rng, m3, n3);
        let C = c.to_csc_pattern(&pc);
        let blocks: Vec<(&Dense, &CscMatrix<f64>)> = vec![(&a, &A), (&b, &B), (&c, &C)];
        let nb = rng.usize(1, 3);
        let mats: Vec<&CscMatrix<f64>> = blocks[..nb].iter().map(|x| x.1).collect();
        let (tm, tn) = blocks[..nb].iter().fold((0, 0), |s, x| (s.0 + x.0.m, s.1 + x.0.n));
        let mut w = Dense::zeros(tm, tn);
        let (mut r0, mut c0) = (0, 0);
        for x in &blocks[..nb] {
            place(&mut w, x.0, r0, c0);
            r0 += x.0.m;
            c0 += x.0.n;
        }
        let inp3 = json!({"blocks": mats.iter().map(|m| csc_json(m)).collect::<Vec<_>>()});
        match CscMatrix::blockdiag(&mats) {
            Ok(g) => t.mat("blockdiag", &g, &w, &inp3),
            Err(_) => t.truth("blockdiag:err", false, &inp3),
        }
    }
    // hvcat on a 2x2 / 2x3 / 3x2 grid with consistent dims, and with one mismatch
    for _ in 0..3 {
        let (br, bc) = (rng.usize(1, 3), rng.usize(1, 3));
        let rdims: Vec<usize> = (0..br).map(|_| rng.usize(0, maxdim)).collect();
        let cdims: Vec<usize> = (0..bc).map(|_| rng.usize(0, maxdim)).collect();
        let mut ds: Vec<Vec<Dense>> = vec![];
        let mut ms: Vec<Vec<CscMatrix<f64>>> = vec![];
        for i in 0..br {
            let mut rd = vec![];
            let mut rm = vec![];
            for j in 0..bc {
                let (d, p) = rand_block(rng, rdims[i], cdims[j]);
                rm.push(d.to_csc_pattern(&p));
                rd.push(d);
            }
            ds.push(rd);
            ms.push(rm);
        }
        let refs: Vec<Vec<&CscMatrix<f64>>> = ms.iter().map(|r| r.iter().collect()).collect();
        let refs2: Vec<&[&CscMatrix<f64>]> = refs.iter().map(|r| r.as_slice()).collect();
        let (tm, tn) = (rdims.iter().sum(), cdims.iter().sum());
        let mut w = Dense::zeros(tm, tn);
        let mut r0 = 0;
        for i in 0..br {
            let mut c0 = 0;
            for j in 0..bc {
                place(&mut w, &ds[i][j], r0, c0);
                c0 += cdims[j];
            }
            r0 += rdims[i];
        }
        let inp = json!({"blocks": ms.iter().map(|r| r.iter().map(csc_json).collect::<Vec<_>>()).collect::<Vec<_>>()});
        match CscMatrix::hvcat(&refs2) {
            Ok(g) => t.mat("hvcat", &g, &w, &inp),
            Err(_) => t.truth("hvcat:err-on-compatible", false, &inp),
        }
        // one block with a wrong dimension => Err
        let (bi, bj) = (rng.usize(0, br - 1), rng.usize(0, bc - 1));
        if br * bc > 1 {
            let bad_rows = rng.bool(0.5);
            // changing rows matters only if the block row has another block; cols likewise
            if (bad_rows && bc > 1) || (!bad_rows && br > 1) {
                let (mm, nn) = if bad_rows { (rdims[bi] + 1, cdims[bj]) } else { (rdims[bi], cdims[bj] + 1) };
                let (d, p) = rand_block(rng, mm, nn);
                let bad = d.to_csc_pattern(&p);
                let mut refs_bad = refs.clone();
                refs_bad[bi][bj] = &bad;
                let refs_bad2: Vec<&[&CscMatrix<f64>]> = refs_bad.iter().map(|r| r.as_slice()).collect();
                let r = CscMatrix::hvcat(&refs_bad2);
                t.truth("hvcat:ok-on-mismatch", r.is_err(), &json!({"good": inp, "bad_block": [bi, bj], "bad": csc_json(&bad)}));
            }
        }
    }
    // ragged / empty => Err
    {
        let A = CscMatrix::<f64>::identity(2);
        let e: Vec<&[&CscMatrix<f64>]> = vec![];
        t.truth("hvcat:ok-on-empty", CscMatrix::hvcat(&e).is_err(), &json!("empty block list"));
        let r1: Vec<&CscMatrix<f64>> = vec![&A, &A];
        let r2: Vec<&CscMatrix<f64>> = vec![&A];
        let rag: Vec<&[&CscMatrix<f64>]> = vec![r1.as_slice(), r2.as_slice()];
        t.truth("hvcat:ok-on-ragged", CscMatrix::hvcat(&rag).is_err(), &json!("ragged block list"));
        let none: Vec<&CscMatrix<f64>> = vec![];
        t.truth("blockdiag:ok-on-empty", CscMatrix::blockdiag(&none).is_err(), &json!("empty"));
    }
    // identity / zeros
    for k in 0..4usize {
        let I = CscMatrix::<f64>::identity(k);
        t.mat("identity", &I, &Dense::eye(k), &json!(k));
        let Z = CscMatrix::<f64>::zeros((k, 3 - k.min(3)));
        t.mat("zeros", &Z, &Dense::zeros(k, 3 - k.min(3)), &json!(k));
    }
}

/// W1: exhaustive patterns of all shapes up to 3x3 and 4x3
fn w_patterns(ctx: &mut Ctx) {
    let wl = "patterns";
    let mut shapes: Vec<(usize, usize)> = vec![];
    for m in 0..=3 {
        for n in 0..=3 {
            shapes.push((m, n));
        }
    }
    shapes.push((4, 3));
    if ctx.thorough() {
        shapes.push((3, 4));
        shapes.push((4, 4));
    }
    // enumerate (shape, pattern) pairs as a flat case index
    let mut offsets = vec![];
    let mut total = 0u64;
    for &(m, n) in &shapes {
        offsets.push(total);
        total += 1u64 << (m * n);
    }
    let reps = if ctx.thorough() { 3 } else { 1 };
    for case in ctx.cases(wl, total) {
        if ctx.out_of_budget() {
            continue;
        }
        let si = offsets.iter().rposition(|&o| o <= case).unwrap();
        let (m, n) = shapes[si];
        let bits = case - offsets[si];
        ctx.begin(wl, case);
        for rep in 0..reps {
            let mut rng = Rng::for_case(ctx.seed, "C16/patterns", case * 8 + rep);
            let mut d = Dense::zeros(m, n);
            let mut pat = vec![false; m * n];
            for k in 0..m * n {
                if (bits >> k) & 1 == 1 {
                    pat[k] = true;
                    // value in {-2..2}: zero allowed with small probability (structural zero)
                    let v = if rng.bool(0.1) { 0.0 } else { *rng.choose(&[-2.0, -1.0, 1.0, 2.0]) };
                    d.a[k] = v;
                }
            }
            let seed = ctx.seed;
            let r = {
                let mut t = T { ctx, wl, case, exact: true };
                // the operations under test must not panic on well-formed input
                catch(std::panic::AssertUnwindSafe(|| battery(&mut t, &mut rng, &d, &pat)))
            };
            if let Err(msg) = r {
                ctx.violation("panic", "panic:battery", wl, case, json!({"shape": [m, n], "pattern_bits": bits, "seed": seed, "panic": msg}));
            }
        }
        ctx.nontrivial_n(1);
        if case % 997 == 3 {
            ctx.sample(json!({"workload": wl, "shape": [m, n], "pattern_bits": bits, "ops": "full battery"}));
        }
    }
    // concatenation battery (random small blocks), sharded by index
    let wl2 = "concat";
    let total = ctx.count(400, 6000);
    for case in ctx.cases(wl2, total) {
        if ctx.out_of_budget() {
            continue;
        }
        ctx.begin(wl2, case);
        let mut rng = Rng::for_case(ctx.seed, "C16/concat", case);
        let r = {
            let mut t = T { ctx, wl: wl2, case, exact: true };
            catch(std::panic::AssertUnwindSafe(|| concat_battery(&mut t, &mut rng, true, 3)))
        };
        if let Err(msg) = r {
            ctx.violation("panic", "panic:concat", wl2, case, json!({"panic": msg}));
        }
        ctx.nontrivial_n(1);
    }
}

/// W2: triplet multisets
fn w_triplets(ctx: &mut Ctx) {
    let wl = "triplets";
    // exhaustive: sequences of length L over 2x2 coords x values {-1,1,2}
    let maxlen = if ctx.thorough() { 5 } else { 4 };
    let alphabet = 12u64; // 4 coords * 3 values
    let mut total = 0u64;
    let mut offs = vec![];
    for l in 0..=maxlen {
        offs.push(total);
        total += alphabet.pow(l);
    }
    let vals = [-1.0, 1.0, 2.0];
    for case in ctx.cases(wl, total) {
        if ctx.out_of_budget() {
            continue;
        }
        let li = offs.iter().rposition(|&o| o <= case).unwrap();
        let mut code = case - offs[li];
        let (mut I, mut J, mut V) = (vec![], vec![], vec![]);
        let mut want = Dense::zeros(2, 2);
        for _ in 0..li {
            let sym = code % alphabet;
            code /= alphabet;
            let (coord, vi) = ((sym / 3) as usize, (sym % 3) as usize);
            let (i, j) = (coord / 2, coord % 2);
            I.push(i);
            J.push(j);
            V.push(vals[vi]);
            want.add(i, j, vals[vi]);
        }
        if case % 4096 == 0 {
            ctx.begin(wl, case);
        }
        let inp = json!({"m": 2, "n": 2, "I": I, "J": J, "V": V});
        let (i2, j2, v2) = (I.clone(), J.clone(), V.clone());
        match catch(move || CscMatrix::new_from_triplets(2, 2, i2, j2, v2)) {
            Ok(g) => {
                let mut t = T { ctx, wl, case, exact: true };
                t.mat("new_from_triplets", &g, &want, &inp);
                // stored pattern = set of coordinates mentioned
                let pg = Dense::pattern_of(&g);
                let mut wp = vec![false; 4];
                for k in 0..I.len() {
                    wp[I[k] * 2 + J[k]] = true;
                }
                t.truth("new_from_triplets:pattern", pg == wp, &inp);
            }
            Err(msg) => ctx.violation("panic", "panic:new_from_triplets", wl, case, json!({"input": inp, "panic": msg})),
        }
        ctx.nontrivial_n(1);
        if case == 100 || case == total - 1 {
            ctx.sample(json!({"workload": wl, "triplets": inp}));
        }
    }
    // random larger triplet sets with duplicates, unsorted, empty rows/cols
    let wl2 = "triplets_random";
    let total = ctx.count(1500, 30000);
    for case in ctx.cases(wl2, total) {
        if ctx.out_of_budget() {
            continue;
        }
        let mut rng = Rng::for_case(ctx.seed, "C16/triplets_random", case);
        let (m, n) = (rng.usize(1, 7), rng.usize(1, 7));
        let len = rng.usize(0, 25);
        let (mut I, mut J, mut V) = (vec![], vec![], vec![]);
        let mut want = Dense::zeros(m, n);
        let mut wp = vec![false; m * n];
        for _ in 0..len {
            let (i, j, v) = (rng.usize(0, m - 1), rng.usize(0, n - 1), rng.small_int_val(3));
            I.push(i);
            J.push(j);
            V.push(v);
            want.add(i, j, v);
            wp[i * n + j] = true;
        }
        let inp = json!({"m": m, "n": n, "I": I, "J": J, "V": V});
        let (i2, j2, v2) = (I.clone(), J.clone(), V.clone());
        match catch(move || CscMatrix::new_from_triplets(m, n, i2, j2, v2)) {
            Ok(g) => {
                let mut t = T { ctx, wl: wl2, case, exact: true };
                t.mat("new_from_triplets", &g, &want, &inp);
                t.truth("new_from_triplets:pattern", Dense::pattern_of(&g) == wp, &inp);
            }
            Err(msg) => ctx.violation("panic", "panic:new_from_triplets", wl2, case, json!({"input": inp, "panic": msg})),
        }
        let mut h = vkit::report::hash_new();
        vkit::report::hash_usizes(&mut h, &I);
        vkit::report::hash_usizes(&mut h, &J);
        vkit::report::hash_f64s(&mut h, &V);
        ctx.nontrivial_hash(h);
    }
}

/// W3: check_format / canonicalize over all small encodings
fn w_encodings(ctx: &mut Ctx) {
    let wl = "encodings";
    // (m,n) in 0..=2 x 0..=2 ; colptr entries in 0..=4 (length n+1, and also wrong lengths n, n+2);
    // rowval entries in 0..=2 of length 0..=3 ; nzval length = rowval length or +-1
    let mut all: Vec<(usize, usize, Vec<usize>, Vec<usize>, usize)> = vec![];
    for m in 0..=2usize {
        for n in 0..=2usize {
            for cl in [n, n + 1, n + 2] {
                if cl == 0 && n + 1 != 0 {
                    // empty colptr is a legal thing to hand in; include once
                }
                let ncol = 5usize.pow(cl as u32);
                for cc in 0..ncol {
                    let mut c = cc;
                    let colptr: Vec<usize> = (0..cl)
                        .map(|_| {
                            let v = c % 5;
                            c /= 5;
                            v
                        })
                        .collect();
                    for rl in 0..=3usize {
                        let nrow = 3usize.pow(rl as u32);
                        for rc in 0..nrow {
                            let mut r = rc;
                            let rowval: Vec<usize> = (0..rl)
                                .map(|_| {
                                    let v = r % 3;
                                    r /= 3;
                                    v
                                })
                                .collect();
                            // value length: mostly equal; a mismatch only for a thin slice
                            all.push((m, n, colptr.clone(), rowval.clone(), rl));
                            if cc % 7 == 0 && rc == 0 {
                                all.push((m, n, colptr.clone(), rowval.clone(), rl + 1));
                            }
                        }
                    }
                }
            }
        }
    }
    let total = all.len() as u64;
    for case in ctx.cases(wl, total) {
        if ctx.out_of_budget() {
            continue;
        }
        let (m, n, colptr, rowval, vl) = all[case as usize].clone();
        let nzval: Vec<f64> = (0..vl).map(|k| (k + 1) as f64).collect();
        let enc = CscMatrix { m, n, colptr, rowval, nzval };
        let inp = csc_json(&enc);
        if case % 8192 == 0 {
            ctx.begin(wl, case);
        }
        let canon = is_canonical_csc(&enc);
        let e2 = enc.clone();
        match catch(move || e2.check_format().is_ok()) {
            Ok(acc) => {
                ctx.eval(1);
                if acc != canon {
                    let (oracle, sig) = if acc {
                        let why = if !enc.colptr.is_empty() && enc.colptr.len() == n + 1 && enc.colptr[0] != 0 { "colptr0-nonzero" } else { "other" };
                        ("check_format:accepts-noncanonical".to_string(), format!("check_format:accepts-noncanonical:{why}"))
                    } else {
                        ("check_format:rejects-canonical".to_string(), "check_format:rejects-canonical".to_string())
                    };
                    ctx.violation(&oracle, &sig, wl, case, json!({"encoding": inp, "harness_canonical": canon, "check_format_ok": acc}));
                }
            }
            Err(msg) => {
                ctx.eval(1);
                ctx.violation("check_format:panic", "check_format:panic", wl, case, json!({"encoding": inp, "panic": msg}));
            }
        }
        if canon {
            ctx.bump("encodings_canonical");
        } else {
            ctx.bump("encodings_noncanonical");
        }
        // canonicalize: on encodings that are structurally well-formed (lengths, colptr[0]=0,
        // monotone colptr, rows in range) but possibly unsorted / duplicated
        let wellformed = enc.colptr.len() == n + 1
            && enc.colptr[0] == 0
            && enc.rowval.len() == enc.nzval.len()
            && *enc.colptr.last().unwrap() == enc.rowval.len()
            && enc.colptr.windows(2).all(|w| w[0] <= w[1])
            && enc.rowval.iter().all(|&r| r < m);
        if wellformed {
            let want = Dense::from_csc(&enc);
            let mut e3 = enc.clone();
            match catch(std::panic::AssertUnwindSafe(|| e3.canonicalize().is_ok())) {
                Ok(true) => {
                    let mut t = T { ctx, wl, case, exact: true };
                    t.mat("canonicalize", &e3, &want, &inp);
                    let ok = e3.check_format().is_ok();
                    t.truth("canonicalize:check_format", ok, &inp);
                    // pattern = set of rows mentioned per column
                    let mut wp = vec![false; m * n];
                    for j in 0..n {
                        for k in enc.colptr[j]..enc.colptr[j + 1] {
                            wp[enc.rowval[k] * n + j] = true;
                        }
                    }
                    t.truth("canonicalize:pattern", Dense::pattern_of(&e3) == wp, &inp);
                }
                Ok(false) => ctx.violation("canonicalize:err-on-wellformed", "canonicalize:err-on-wellformed", wl, case, json!({"encoding": inp})),
                Err(msg) => ctx.violation("canonicalize:panic", "canonicalize:panic", wl, case, json!({"encoding": inp, "panic": msg})),
            }
            ctx.bump("canonicalize_inputs");
        }
        ctx.nontrivial_n(1);
        if case == 12345 {
            ctx.sample(json!({"workload": wl, "encoding": inp, "canonical": canon}));
        }
    }
}

/// W4: random larger shapes, float values, empty rows/cols
fn w_random(ctx: &mut Ctx) {
    let wl = "random";
    let total = ctx.count(300, 6000);
    for case in ctx.cases(wl, total) {
        if ctx.out_of_budget() {
            continue;
        }
        ctx.begin(wl, case);
        let mut rng = Rng::for_case(ctx.seed, "C16/random", case);
        let square = rng.bool(0.5);
        let m = rng.usize(0, 14);
        let n = if square { m } else { rng.usize(0, 14) };
        let dens = *rng.choose(&[0.05, 0.2, 0.5, 0.9]);
        let mut d = Dense::zeros(m, n);
        let mut pat = vec![false; m * n];
        let dead_row = if m > 0 { rng.usize(0, m - 1) } else { 0 };
        let dead_col = if n > 0 { rng.usize(0, n - 1) } else { 0 };
        for i in 0..m {
            for j in 0..n {
                if (i == dead_row || j == dead_col) && rng.bool(0.7) {
                    continue;
                }
                if rng.bool(dens) {
                    pat[i * n + j] = true;
                    d.set(i, j, rng.logmag(-4.0, 4.0));
                }
            }
        }
        let r = {
            let mut t = T { ctx, wl, case, exact: false };
            catch(std::panic::AssertUnwindSafe(|| {
                battery(&mut t, &mut rng, &d, &pat);
                concat_battery(&mut t, &mut rng, false, 6);
            }))
        };
        if let Err(msg) = r {
            ctx.violation("panic", "panic:battery", wl, case, json!({"shape": [m, n], "panic": msg}));
        }
        let mut h = vkit::report::hash_new();
        vkit::report::hash_f64s(&mut h, &d.a);
        ctx.nontrivial_hash(h);
        if case < 2 {
            ctx.sample(json!({"workload": wl, "shape": [m, n], "nnz": pat.iter().filter(|&&p| p).count()}));
        }
    }
}

pub fn run(ctx: &mut Ctx) {
    let _ = P;
    if ctx.flavour == "miri" {
        // the complete <=2x2 exhaustive set plus encodings; everything else is too slow
        w_patterns_small_for_miri(ctx);
        return;
    }
    w_patterns(ctx);
    w_triplets(ctx);
    w_encodings(ctx);
    w_random(ctx);
}

fn w_patterns_small_for_miri(ctx: &mut Ctx) {
    let wl = "patterns_miri";
    let mut shapes = vec![];
    for m in 0..=2 {
        for n in 0..=2 {
            shapes.push((m, n));
        }
    }
    let mut offsets = vec![];
    let mut total = 0u64;
    for &(m, n) in &shapes {
        offsets.push(total);
        total += 1u64 << (m * n);
    }
    for case in ctx.cases(wl, total) {
        let si = offsets.iter().rposition(|&o| o <= case).unwrap();
        let (m, n) = shapes[si];
        let bits = case - offsets[si];
        ctx.begin(wl, case);
        let mut rng = Rng::for_case(ctx.seed, "C16/patterns_miri", case);
        let mut d = Dense::zeros(m, n);
        let mut pat = vec![false; m * n];
        for k in 0..m * n {
            if (bits >> k) & 1 == 1 {
                pat[k] = true;
                d.a[k] = *rng.choose(&[-2.0, -1.0, 1.0, 2.0]);
            }
        }
        let mut t = T { ctx, wl, case, exact: true };
        battery(&mut t, &mut rng, &d, &pat);
        if case % 8 == 0 {
            concat_battery(&mut t, &mut rng, true, 2);
        }
        ctx.nontrivial_n(1);
    }
}

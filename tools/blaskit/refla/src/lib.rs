//! refla: small, slow, careful dense linear algebra in safe Rust.
//!
//! Column-major storage everywhere (`a[i + j*lda]`).  These routines are part of
//! the trusted base of the verification harness: they back the pure-Rust
//! BLAS/LAPACK stubs that Clarabel's PSD code is linked against and the
//! oracles' own eigenvalue / rank computations.  They are self-tested by
//! algebraic identities in `cargo test -p refla` and by `vcheck selftest`.

/// Symmetric eigen-decomposition by cyclic Jacobi rotations.
/// `a` is n×n column-major, full symmetric (only needs to be symmetric).
/// Returns (eigenvalues ascending, eigenvectors as columns, column-major).
pub fn jacobi_eig_sym(n: usize, a_in: &[f64]) -> (Vec<f64>, Vec<f64>) {
    assert_eq!(a_in.len(), n * n);
    let mut a = a_in.to_vec();
    // symmetrise defensively
    for j in 0..n {
        for i in 0..j {
            let v = 0.5 * (a[i + j * n] + a[j + i * n]);
            a[i + j * n] = v;
            a[j + i * n] = v;
        }
    }
    let mut v = vec![0.0; n * n];
    for i in 0..n {
        v[i + i * n] = 1.0;
    }
    if n <= 1 {
        return (a, v);
    }
    for _sweep in 0..100 {
        let mut off = 0.0;
        let mut diag = 0.0;
        for j in 0..n {
            diag += a[j + j * n] * a[j + j * n];
            for i in 0..j {
                off += a[i + j * n] * a[i + j * n];
            }
        }
        if off == 0.0 || off <= 1e-34 * diag {
            break;
        }
        for p in 0..n - 1 {
            for q in p + 1..n {
                let apq = a[p + q * n];
                if apq == 0.0 {
                    continue;
                }
                let app = a[p + p * n];
                let aqq = a[q + q * n];
                // skip negligible rotations
                if apq.abs() <= 1e-300 {
                    a[p + q * n] = 0.0;
                    a[q + p * n] = 0.0;
                    continue;
                }
                let theta = (aqq - app) / (2.0 * apq);
                let t = if theta.is_infinite() {
                    0.0
                } else {
                    let s = if theta >= 0.0 { 1.0 } else { -1.0 };
                    s / (theta.abs() + (theta * theta + 1.0).sqrt())
                };
                let c = 1.0 / (t * t + 1.0).sqrt();
                let s = t * c;
                // A <- J' A J, J rotation in (p,q) plane
                for k in 0..n {
                    let akp = a[k + p * n];
                    let akq = a[k + q * n];
                    a[k + p * n] = c * akp - s * akq;
                    a[k + q * n] = s * akp + c * akq;
                }
                for k in 0..n {
                    let apk = a[p + k * n];
                    let aqk = a[q + k * n];
                    a[p + k * n] = c * apk - s * aqk;
                    a[q + k * n] = s * apk + c * aqk;
                }
                // enforce exact zero/symmetry
                a[p + q * n] = 0.0;
                a[q + p * n] = 0.0;
                for k in 0..n {
                    let vkp = v[k + p * n];
                    let vkq = v[k + q * n];
                    v[k + p * n] = c * vkp - s * vkq;
                    v[k + q * n] = s * vkp + c * vkq;
                }
            }
        }
    }
    // sort ascending
    let mut idx: Vec<usize> = (0..n).collect();
    let w: Vec<f64> = (0..n).map(|i| a[i + i * n]).collect();
    idx.sort_by(|&i, &j| w[i].partial_cmp(&w[j]).unwrap_or(std::cmp::Ordering::Equal));
    let ws: Vec<f64> = idx.iter().map(|&i| w[i]).collect();
    let mut vs = vec![0.0; n * n];
    for (jnew, &jold) in idx.iter().enumerate() {
        for k in 0..n {
            vs[k + jnew * n] = v[k + jold * n];
        }
    }
    (ws, vs)
}

/// Thin SVD by one-sided Jacobi (Hestenes).  `a` is m×n column-major.
/// Returns (s descending, U m×k, Vt k×n) with k = min(m,n).
pub fn jacobi_svd(m: usize, n: usize, a_in: &[f64]) -> (Vec<f64>, Vec<f64>, Vec<f64>) {
    assert_eq!(a_in.len(), m * n);
    let k = m.min(n);
    if m < n {
        // svd of the transpose:  A' = U2 S V2'  =>  A = V2 S U2'
        let mut at = vec![0.0; m * n];
        for j in 0..n {
            for i in 0..m {
                at[j + i * n] = a_in[i + j * m];
            }
        }
        let (s, u2, v2t) = jacobi_svd(n, m, &at); // u2: n×k, v2t: k×m
                                                  // U = V2 (m×k) = (v2t)' ; Vt = U2' (k×n)
        let mut u = vec![0.0; m * k];
        for i in 0..m {
            for j in 0..k {
                u[i + j * m] = v2t[j + i * k];
            }
        }
        let mut vt = vec![0.0; k * n];
        for i in 0..k {
            for j in 0..n {
                vt[i + j * k] = u2[j + i * n];
            }
        }
        return (s, u, vt);
    }
    // m >= n : rotate columns of W (= A) until mutually orthogonal
    let mut w = a_in.to_vec();
    let mut v = vec![0.0; n * n];
    for i in 0..n {
        v[i + i * n] = 1.0;
    }
    for _sweep in 0..100 {
        let mut rotated = false;
        for p in 0..n.saturating_sub(1) {
            for q in p + 1..n {
                let mut alpha = 0.0;
                let mut beta = 0.0;
                let mut gamma = 0.0;
                for i in 0..m {
                    let wp = w[i + p * m];
                    let wq = w[i + q * m];
                    alpha += wp * wp;
                    beta += wq * wq;
                    gamma += wp * wq;
                }
                if gamma == 0.0 || gamma.abs() <= 1e-17 * (alpha * beta).sqrt() {
                    continue;
                }
                rotated = true;
                let zeta = (beta - alpha) / (2.0 * gamma);
                let t = if zeta.is_infinite() {
                    0.0
                } else {
                    let s = if zeta >= 0.0 { 1.0 } else { -1.0 };
                    s / (zeta.abs() + (1.0 + zeta * zeta).sqrt())
                };
                let c = 1.0 / (1.0 + t * t).sqrt();
                let s = c * t;
                for i in 0..m {
                    let wp = w[i + p * m];
                    let wq = w[i + q * m];
                    w[i + p * m] = c * wp - s * wq;
                    w[i + q * m] = s * wp + c * wq;
                }
                for i in 0..n {
                    let vp = v[i + p * n];
                    let vq = v[i + q * n];
                    v[i + p * n] = c * vp - s * vq;
                    v[i + q * n] = s * vp + c * vq;
                }
            }
        }
        if !rotated {
            break;
        }
    }
    let mut sv: Vec<f64> = (0..n)
        .map(|j| (0..m).map(|i| w[i + j * m] * w[i + j * m]).sum::<f64>().sqrt())
        .collect();
    let mut idx: Vec<usize> = (0..n).collect();
    idx.sort_by(|&i, &j| sv[j].partial_cmp(&sv[i]).unwrap_or(std::cmp::Ordering::Equal));
    let mut u = vec![0.0; m * n];
    let mut vt = vec![0.0; n * n];
    let mut s_sorted = vec![0.0; n];
    for (jnew, &jold) in idx.iter().enumerate() {
        let sj = sv[jold];
        s_sorted[jnew] = sj;
        for i in 0..m {
            u[i + jnew * m] = if sj > 0.0 { w[i + jold * m] / sj } else { 0.0 };
        }
        for i in 0..n {
            vt[jnew + i * n] = v[i + jold * n];
        }
    }
    // complete U for zero singular values with an orthonormal basis (Gram-Schmidt on unit vectors)
    for j in 0..n {
        if s_sorted[j] > 0.0 {
            continue;
        }
        'cand: for e in 0..m {
            let mut col = vec![0.0; m];
            col[e] = 1.0;
            for _pass in 0..2 {
                for jj in 0..n {
                    if jj == j || (s_sorted[jj] == 0.0 && jj > j) {
                        continue;
                    }
                    let d: f64 = (0..m).map(|i| col[i] * u[i + jj * m]).sum();
                    for i in 0..m {
                        col[i] -= d * u[i + jj * m];
                    }
                }
            }
            let nrm: f64 = col.iter().map(|x| x * x).sum::<f64>().sqrt();
            if nrm > 1e-8 {
                for i in 0..m {
                    u[i + j * m] = col[i] / nrm;
                }
                break 'cand;
            }
        }
    }
    sv.clear();
    (s_sorted, u, vt)
}

/// Cholesky factor (lower) of the symmetric matrix whose lower triangle is given
/// in `a` (n×n, leading dimension lda, column-major), in place in the lower
/// triangle.  Returns Err(k) (1-based) if the leading minor of order k is not
/// positive definite, as LAPACK's dpotrf does.
pub fn cholesky_lower_inplace(n: usize, a: &mut [f64], lda: usize) -> Result<(), usize> {
    for j in 0..n {
        let mut d = a[j + j * lda];
        for k in 0..j {
            d -= a[j + k * lda] * a[j + k * lda];
        }
        if !(d > 0.0) {
            return Err(j + 1);
        }
        let d = d.sqrt();
        a[j + j * lda] = d;
        for i in j + 1..n {
            let mut s = a[i + j * lda];
            for k in 0..j {
                s -= a[i + k * lda] * a[j + k * lda];
            }
            a[i + j * lda] = s / d;
        }
    }
    Ok(())
}

/// Solve A x = b for each column of `b` (n×nrhs, ldb) given the lower Cholesky factor in `l`
pub fn cholesky_lower_solve(n: usize, nrhs: usize, l: &[f64], lda: usize, b: &mut [f64], ldb: usize) {
    for r in 0..nrhs {
        // forward L y = b
        for i in 0..n {
            let mut s = b[i + r * ldb];
            for k in 0..i {
                s -= l[i + k * lda] * b[k + r * ldb];
            }
            b[i + r * ldb] = s / l[i + i * lda];
        }
        // backward L' x = y
        for i in (0..n).rev() {
            let mut s = b[i + r * ldb];
            for k in i + 1..n {
                s -= l[k + i * lda] * b[k + r * ldb];
            }
            b[i + r * ldb] = s / l[i + i * lda];
        }
    }
}

/// LU with partial pivoting in place; ipiv 1-based as LAPACK.  Err(k) if U(k,k)==0.
pub fn lu_inplace(n: usize, a: &mut [f64], lda: usize, ipiv: &mut [i32]) -> Result<(), usize> {
    let mut info = 0usize;
    for j in 0..n {
        let mut p = j;
        let mut big = a[j + j * lda].abs();
        for i in j + 1..n {
            if a[i + j * lda].abs() > big {
                big = a[i + j * lda].abs();
                p = i;
            }
        }
        ipiv[j] = (p + 1) as i32;
        if big == 0.0 {
            if info == 0 {
                info = j + 1;
            }
            continue;
        }
        if p != j {
            for c in 0..n {
                a.swap(j + c * lda, p + c * lda);
            }
        }
        let d = a[j + j * lda];
        for i in j + 1..n {
            a[i + j * lda] /= d;
        }
        for c in j + 1..n {
            let f = a[j + c * lda];
            if f != 0.0 {
                for i in j + 1..n {
                    a[i + c * lda] -= a[i + j * lda] * f;
                }
            }
        }
    }
    if info != 0 {
        Err(info)
    } else {
        Ok(())
    }
}

pub fn lu_solve(n: usize, nrhs: usize, a: &[f64], lda: usize, ipiv: &[i32], b: &mut [f64], ldb: usize) {
    for r in 0..nrhs {
        for j in 0..n {
            let p = (ipiv[j] - 1) as usize;
            if p != j {
                b.swap(j + r * ldb, p + r * ldb);
            }
        }
        for i in 0..n {
            let mut s = b[i + r * ldb];
            for k in 0..i {
                s -= a[i + k * lda] * b[k + r * ldb];
            }
            b[i + r * ldb] = s;
        }
        for i in (0..n).rev() {
            let mut s = b[i + r * ldb];
            for k in i + 1..n {
                s -= a[i + k * lda] * b[k + r * ldb];
            }
            b[i + r * ldb] = s / a[i + i * lda];
        }
    }
}

/// numerical rank / extreme singular values of an m×n column-major matrix
pub fn singular_values(m: usize, n: usize, a: &[f64]) -> Vec<f64> {
    if m == 0 || n == 0 {
        return vec![];
    }
    jacobi_svd(m, n, a).0
}

#[cfg(test)]
mod tests {
    use super::*;

    struct Rng(u64);
    impl Rng {
        fn next(&mut self) -> u64 {
            self.0 ^= self.0 << 13;
            self.0 ^= self.0 >> 7;
            self.0 ^= self.0 << 17;
            self.0
        }
        fn unif(&mut self) -> f64 {
            (self.next() >> 11) as f64 / (1u64 << 53) as f64 * 2.0 - 1.0
        }
    }

    #[test]
    fn eig_identities() {
        let mut r = Rng(12345);
        for trial in 0..300 {
            let n = 1 + trial % 9;
            let mut a = vec![0.0; n * n];
            for j in 0..n {
                for i in 0..=j {
                    let v = r.unif() * 10f64.powi((trial % 5) as i32 - 2);
                    a[i + j * n] = v;
                    a[j + i * n] = v;
                }
            }
            // occasionally rank deficient / repeated eigenvalues
            if trial % 7 == 0 {
                for x in a.iter_mut() {
                    *x = 0.0;
                }
                for i in 0..n {
                    a[i + i * n] = 2.0;
                }
            }
            let (w, v) = jacobi_eig_sym(n, &a);
            let scale = a.iter().fold(0.0f64, |m, x| m.max(x.abs())).max(1e-300);
            for i in 1..n {
                assert!(w[i - 1] <= w[i]);
            }
            // A V = V W, V'V = I
            for j in 0..n {
                for i in 0..n {
                    let mut av = 0.0;
                    for k in 0..n {
                        av += a[i + k * n] * v[k + j * n];
                    }
                    assert!((av - v[i + j * n] * w[j]).abs() <= 1e-13 * scale * n as f64, "AV=VW");
                    let mut vv = 0.0;
                    for k in 0..n {
                        vv += v[k + i * n] * v[k + j * n];
                    }
                    let e = if i == j { 1.0 } else { 0.0 };
                    assert!((vv - e).abs() <= 1e-13 * n as f64);
                }
            }
        }
    }

    #[test]
    fn svd_identities() {
        let mut r = Rng(999);
        for trial in 0..300 {
            let m = 1 + trial % 7;
            let n = 1 + (trial / 7) % 7;
            let k = m.min(n);
            let mut a = vec![0.0; m * n];
            for x in a.iter_mut() {
                *x = r.unif();
            }
            if trial % 5 == 0 && n > 1 {
                // duplicate a column -> rank deficiency
                for i in 0..m {
                    a[i + (n - 1) * m] = a[i];
                }
            }
            let (s, u, vt) = jacobi_svd(m, n, &a);
            assert_eq!(s.len(), k);
            for i in 1..k {
                assert!(s[i - 1] >= s[i]);
            }
            for j in 0..n {
                for i in 0..m {
                    let mut x = 0.0;
                    for l in 0..k {
                        x += u[i + l * m] * s[l] * vt[l + j * k];
                    }
                    assert!((x - a[i + j * m]).abs() <= 1e-13 * (m + n) as f64, "USVt=A");
                }
            }
            for a_ in 0..k {
                for b_ in 0..k {
                    let mut uu = 0.0;
                    for i in 0..m {
                        uu += u[i + a_ * m] * u[i + b_ * m];
                    }
                    let mut vv = 0.0;
                    for j in 0..n {
                        vv += vt[a_ + j * k] * vt[b_ + j * k];
                    }
                    let e = if a_ == b_ { 1.0 } else { 0.0 };
                    assert!((uu - e).abs() <= 1e-12, "U orth {m}x{n} {a_} {b_} {uu}");
                    assert!((vv - e).abs() <= 1e-12, "V orth");
                }
            }
        }
    }

    #[test]
    fn chol_lu() {
        let mut r = Rng(77);
        for trial in 0..200 {
            let n = 1 + trial % 8;
            let mut g = vec![0.0; n * n];
            for x in g.iter_mut() {
                *x = r.unif();
            }
            let mut a = vec![0.0; n * n];
            for i in 0..n {
                for j in 0..n {
                    let mut s = 0.0;
                    for k in 0..n {
                        s += g[i + k * n] * g[j + k * n];
                    }
                    a[i + j * n] = s + if i == j { 0.1 } else { 0.0 };
                }
            }
            let mut l = a.clone();
            cholesky_lower_inplace(n, &mut l, n).unwrap();
            for i in 0..n {
                for j in 0..=i {
                    let mut s = 0.0;
                    for k in 0..=j {
                        s += l[i + k * n] * l[j + k * n];
                    }
                    assert!((s - a[i + j * n]).abs() < 1e-12);
                }
            }
            let x0: Vec<f64> = (0..n).map(|_| r.unif()).collect();
            let mut b = vec![0.0; n];
            for i in 0..n {
                for j in 0..n {
                    b[i] += a[i + j * n] * x0[j];
                }
            }
            let mut b2 = b.clone();
            cholesky_lower_solve(n, 1, &l, n, &mut b2, n);
            for i in 0..n {
                assert!((b2[i] - x0[i]).abs() < 1e-8);
            }
            let mut lu = a.clone();
            let mut ipiv = vec![0i32; n];
            lu_inplace(n, &mut lu, n, &mut ipiv).unwrap();
            let mut b3 = b.clone();
            lu_solve(n, 1, &lu, n, &ipiv, &mut b3, n);
            for i in 0..n {
                assert!((b3[i] - x0[i]).abs() < 1e-8);
            }
        }
        // not PD
        let mut a = vec![1.0, 2.0, 2.0, 1.0];
        assert_eq!(cholesky_lower_inplace(2, &mut a, 2), Err(2));
    }
}

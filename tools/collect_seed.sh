#!/bin/bash
# usage: collect_seed.sh <Cxx> [suffix]  — copies a mutation agent's output (/tmp/mut2/<Cxx>/out) to /verif/seeded/<Cxx><suffix>/
id=$1; suf=${2:-b}
src=/tmp/mut${MUTROUND:-2}/$id/out
dst=/verif/seeded/$id$suf
[ -f $src/patch.diff ] || { echo "no output for $id"; exit 1; }
mkdir -p $dst
cp $src/patch.diff $src/demo.rs $src/meta.json $dst/
# the demo's test target name follows the seed id
echo "collected $id -> $dst ($(wc -l < $dst/patch.diff) diff lines)"

//! The KKT oracle: optimality conditions of the user's original problem evaluated in
//! double-double arithmetic on the returned (x, s, z), normalised exactly as the
//! implementation documents (2-norms of residuals/x/s/z, inf-norms of b and q).

use crate::cones::*;
use crate::dd::{self, DD};
use crate::dense::Dense;
use crate::problem::Problem;

pub const U: f64 = 1.1102230246251565e-16;

#[derive(Clone, Debug, Default)]
pub struct KktEval {
    pub res_p: f64,
    pub res_d: f64,
    pub p_obj: f64,
    pub d_obj: f64,
    pub gap_abs: f64,
    pub gap_rel: f64,
    /// absolute residual 2-norms
    pub rp_norm: f64,
    pub rd_norm: f64,
    pub normx: f64,
    pub norms: f64,
    pub normz: f64,
    pub normb: f64,
    pub normq: f64,
    /// computable bounds on what an f64 evaluation of the same quantities can be off by
    pub slack_res_p: f64,
    pub slack_res_d: f64,
    pub slack_gap_abs: f64,
    pub slack_obj: f64,
    /// worst relative cone margins (margin / scale) of s in K and z in K*, over kept rows' cones
    pub s_margin: f64,
    pub z_margin: f64,
    pub s_worst_cone: usize,
    pub z_worst_cone: usize,
    /// quantities for infeasibility certificates
    pub bz: f64,
    pub qx: f64,
    pub atz_norm: f64,
    pub px_norm: f64,
    pub axs_norm: f64,
    pub slack_atz: f64,
    pub slack_px: f64,
    pub slack_axs: f64,
    pub slack_bz: f64,
    pub slack_qx: f64,
}

/// `keep[i]` = row i of the user's problem is part of the internal problem (not dropped by
/// presolve); `bcap` = the infinity bound in force (b is capped at it).  Cone membership is
/// evaluated on `cones_eff` over the kept rows (callers pass the hand-reduced cone list).
pub fn evaluate(p: &Problem, x: &[f64], s: &[f64], z: &[f64], keep: &[bool], bcap: f64, cones_eff: &[ConeT]) -> KktEval {
    let n = p.n();
    let m = p.m();
    assert_eq!(x.len(), n);
    assert_eq!(s.len(), m);
    assert_eq!(z.len(), m);
    let a = Dense::from_csc(&p.A);
    let ps = p.P_sym();
    let b: Vec<f64> = p.b.iter().map(|v| v.min(bcap)).collect();
    let kept: Vec<usize> = (0..m).filter(|&i| keep[i]).collect();

    // r_p = A x + s - b on kept rows
    let ax = a.matvec_dd(x);
    let mut rp = vec![];
    let mut mag_p = vec![];
    for &i in &kept {
        rp.push(ax[i] + DD::new(s[i]) - DD::new(b[i]));
        let mut mg = s[i].abs() + b[i].abs();
        for j in 0..n {
            mg += (a.get(i, j) * x[j]).abs();
        }
        mag_p.push(mg);
    }
    // r_d = P x + A' z + q   (dropped rows have z = 0 and do not contribute)
    let px = ps.matvec_dd(x);
    let zk: Vec<f64> = (0..m).map(|i| if keep[i] { z[i] } else { 0.0 }).collect();
    let atz = a.tmatvec_dd(&zk);
    let mut rd = vec![];
    let mut mag_d = vec![];
    for j in 0..n {
        rd.push(px[j] + atz[j] + DD::new(p.q[j]));
        let mut mg = p.q[j].abs();
        for k in 0..n {
            mg += (ps.get(j, k) * x[k]).abs();
        }
        for &i in &kept {
            mg += (a.get(i, j) * z[i]).abs();
        }
        mag_d.push(mg);
    }
    let sk: Vec<f64> = kept.iter().map(|&i| s[i]).collect();
    let zkk: Vec<f64> = kept.iter().map(|&i| z[i]).collect();
    let bk: Vec<f64> = kept.iter().map(|&i| b[i]).collect();
    let normx = dd::norm2_f(x).f();
    let norms = dd::norm2_f(&sk).f();
    let normz = dd::norm2_f(&zkk).f();
    let normb = dd::norm_inf_f(&bk);
    let normq = dd::norm_inf_f(&p.q);
    let rp_norm = dd::norm2(&rp).f();
    let rd_norm = dd::norm2(&rd).f();
    let den_p = f64::max(1.0, normb + normx + norms);
    let den_d = f64::max(1.0, normq + normx + normz);

    // objectives
    let mut xpx = DD::ZERO;
    let mut mag_xpx = 0.0;
    for j in 0..n {
        xpx = xpx + px[j] * DD::new(x[j]);
        // magnitude of the individual products |P_jk x_j x_k|: an f64 evaluation of x'Px
        // (as the solver's) can be off by u times this, however small x'Px itself is
        for k in 0..n {
            mag_xpx += (ps.get(j, k) * x[j] * x[k]).abs();
        }
    }
    let qx = dd::dot(&p.q, x);
    let bz = dd::dot(&bk, &zkk);
    let mag_qx: f64 = p.q.iter().zip(x).map(|(a, b)| (a * b).abs()).sum();
    let mag_bz: f64 = bk.iter().zip(&zkk).map(|(a, b)| (a * b).abs()).sum();
    let half = DD::new(0.5);
    let p_obj = (half * xpx + qx).f();
    let d_obj = (-bz - half * xpx).f();
    let gap_abs = ((half * xpx + qx) - (-bz - half * xpx)).f().abs();
    let gap_rel = gap_abs / f64::max(1.0, f64::min(p_obj.abs(), d_obj.abs()));

    let nn = (n + m + 3) as f64;
    let vnorm = |v: &[f64]| v.iter().map(|x| x * x).sum::<f64>().sqrt();
    let slack_res_p = 64.0 * U * nn * vnorm(&mag_p) / den_p;
    let slack_res_d = 64.0 * U * nn * vnorm(&mag_d) / den_d;
    let slack_obj = 64.0 * U * nn * (mag_xpx + mag_qx + mag_bz);
    let slack_gap_abs = slack_obj;

    // cone membership on kept rows
    let (s_margin, s_wc) = worst_margin(cones_eff, &sk, false);
    let (z_margin, z_wc) = worst_margin(cones_eff, &zkk, true);

    // certificate quantities
    let atz_norm = dd::norm2(&atz).f();
    let px_norm = dd::norm2(&px).f();
    let mut axs = vec![];
    let mut mag_axs = vec![];
    for &i in &kept {
        axs.push(ax[i] + DD::new(s[i]));
        let mut mg = s[i].abs();
        for j in 0..n {
            mg += (a.get(i, j) * x[j]).abs();
        }
        mag_axs.push(mg);
    }
    let axs_norm = dd::norm2(&axs).f();
    let mag_atz: Vec<f64> = (0..n).map(|j| kept.iter().map(|&i| (a.get(i, j) * z[i]).abs()).sum::<f64>()).collect();
    let mag_px: Vec<f64> = (0..n).map(|j| (0..n).map(|k| (ps.get(j, k) * x[k]).abs()).sum::<f64>()).collect();

    KktEval {
        res_p: rp_norm / den_p,
        res_d: rd_norm / den_d,
        p_obj,
        d_obj,
        gap_abs,
        gap_rel,
        rp_norm,
        rd_norm,
        normx,
        norms,
        normz,
        normb,
        normq,
        slack_res_p,
        slack_res_d,
        slack_gap_abs,
        slack_obj,
        s_margin,
        z_margin,
        s_worst_cone: s_wc,
        z_worst_cone: z_wc,
        bz: bz.f(),
        qx: qx.f(),
        atz_norm,
        px_norm,
        axs_norm,
        slack_atz: 64.0 * U * nn * vnorm(&mag_atz),
        slack_px: 64.0 * U * nn * vnorm(&mag_px),
        slack_axs: 64.0 * U * nn * vnorm(&mag_axs),
        slack_bz: 64.0 * U * nn * mag_bz,
        slack_qx: 64.0 * U * nn * mag_qx,
    }
}

/// rows dropped by presolve according to the documented rule: rows of a user
/// NonnegativeConeT whose b is at or above the bound.  Values within `band` relative
/// below the bound are reported separately as don't-care.
pub fn predicted_dropped(cones: &[ConeT], b: &[f64], bound: f64) -> (Vec<bool>, Vec<bool>) {
    let m = b.len();
    let mut drop = vec![false; m];
    let mut dontcare = vec![false; m];
    for (c, r) in cones.iter().zip(cone_ranges(cones)) {
        let eligible = matches!(c, ConeT::NonnegativeConeT(_)) || is_singleton_nonneg(c);
        if !eligible {
            continue;
        }
        for i in r {
            if b[i] >= bound {
                drop[i] = true;
            } else if b[i] > bound * (1.0 - 1e-14) {
                dontcare[i] = true;
            }
            if is_singleton_nonneg(c) {
                // SOC(1)/PSD(1) singletons are re-typed as nonnegative before presolve:
                // the property text can be read both ways => accepted either dropped or capped
                dontcare[i] = true;
            }
        }
    }
    (drop, dontcare)
}

pub fn is_singleton_nonneg(c: &ConeT) -> bool {
    match c {
        ConeT::SecondOrderConeT(1) => true,
        #[cfg(feature = "sdp")]
        ConeT::PSDTriangleConeT(1) => true,
        _ => false,
    }
}

/// the cone list seen by the internal problem after consolidation of NN/singletons,
/// removal of empty cones, and deletion of the rows in `drop`
pub fn effective_cones(cones: &[ConeT], drop: &[bool]) -> Vec<ConeT> {
    let mut out: Vec<ConeT> = vec![];
    for (c, r) in cones.iter().zip(cone_ranges(cones)) {
        let d = cone_dim(c);
        if d == 0 {
            continue;
        }
        let as_nn = matches!(c, ConeT::NonnegativeConeT(_)) || is_singleton_nonneg(c);
        if as_nn {
            let kept = r.filter(|&i| !drop[i]).count();
            if kept == 0 {
                continue;
            }
            if let Some(ConeT::NonnegativeConeT(k)) = out.last_mut() {
                *k += kept;
            } else {
                out.push(ConeT::NonnegativeConeT(kept));
            }
        } else {
            out.push(c.clone());
        }
    }
    out
}

/// Which of the documented `Solved` conditions the evaluation refutes (empty = none).
/// `relax` multiplies the tolerances (1 for plain solves; the explicit size-dependent
/// constant for chordal decomposition).
pub fn judge_solved(ev: &KktEval, tol_feas: f64, tol_gap_abs: f64, tol_gap_rel: f64, relax: f64) -> Vec<(String, serde_json::Value)> {
    use serde_json::json;
    let mut out = vec![];
    let f = 1.0 + 1e-6;
    if !(ev.res_p <= tol_feas * relax * f + ev.slack_res_p) {
        out.push(("res_primal".to_string(), json!({"res_p": ev.res_p, "tol": tol_feas * relax, "slack": ev.slack_res_p})));
    }
    if !(ev.res_d <= tol_feas * relax * f + ev.slack_res_d) {
        out.push(("res_dual".to_string(), json!({"res_d": ev.res_d, "tol": tol_feas * relax, "slack": ev.slack_res_d})));
    }
    let den = f64::max(1.0, f64::min(ev.p_obj.abs(), ev.d_obj.abs()));
    let gap_ok = ev.gap_abs <= tol_gap_abs * relax * f + ev.slack_gap_abs || ev.gap_rel <= tol_gap_rel * relax * f + ev.slack_gap_abs / den;
    if !gap_ok {
        out.push(("gap".to_string(), json!({"gap_abs": ev.gap_abs, "gap_rel": ev.gap_rel, "tol_abs": tol_gap_abs * relax, "tol_rel": tol_gap_rel * relax, "slack": ev.slack_gap_abs})));
    }
    if !(ev.s_margin >= -1e-12) {
        out.push(("s_not_in_K".to_string(), json!({"relative_margin": ev.s_margin, "cone_index": ev.s_worst_cone})));
    }
    if !(ev.z_margin >= -1e-12) {
        out.push(("z_not_in_Kstar".to_string(), json!({"relative_margin": ev.z_margin, "cone_index": ev.z_worst_cone})));
    }
    out
}

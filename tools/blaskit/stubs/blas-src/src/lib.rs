//! refblas (BLAS part): pure-Rust reference implementations of exactly the BLAS
//! routines Clarabel calls, exported with the Fortran symbol names so that the
//! `blas` crate's FFI declarations resolve to them.
//!
//! Every routine turns its pointer arguments into slices whose lengths are the
//! minimum the BLAS contract implies for the given dimensions, and then works in
//! safe, bounds-checked Rust.  A caller that passes inconsistent dimensions thus
//! produces a slice that exceeds the real buffer — visible to Miri / ASan — or a
//! bounds-check panic, instead of silently scribbling as an optimised BLAS would.
#![allow(clippy::missing_safety_doc)]
#![allow(clippy::too_many_arguments)]

use core::ffi::{c_char, c_int};
use core::slice::{from_raw_parts, from_raw_parts_mut};

fn need(ld: usize, rows: usize, cols: usize) -> usize {
    if cols == 0 || rows == 0 {
        0
    } else {
        assert!(ld >= rows, "refblas: leading dimension {ld} < rows {rows}");
        ld * (cols - 1) + rows
    }
}
fn tr(c: *const c_char) -> bool {
    let c = unsafe { *c } as u8;
    match c {
        b'N' | b'n' => false,
        b'T' | b't' | b'C' | b'c' => true,
        _ => panic!("refblas: bad trans char {c}"),
    }
}
fn up(c: *const c_char) -> bool {
    let c = unsafe { *c } as u8;
    match c {
        b'U' | b'u' => true,
        b'L' | b'l' => false,
        _ => panic!("refblas: bad uplo char {c}"),
    }
}
fn dim(p: *const c_int) -> usize {
    let v = unsafe { *p };
    assert!(v >= 0, "refblas: negative dimension");
    v as usize
}

#[no_mangle]
pub unsafe extern "C" fn dgemm_(
    transa: *const c_char,
    transb: *const c_char,
    m: *const c_int,
    n: *const c_int,
    k: *const c_int,
    alpha: *const f64,
    a: *const f64,
    lda: *const c_int,
    b: *const f64,
    ldb: *const c_int,
    beta: *const f64,
    c: *mut f64,
    ldc: *const c_int,
) {
    let (ta, tb) = (tr(transa), tr(transb));
    let (m, n, k) = (dim(m), dim(n), dim(k));
    let (lda, ldb, ldc) = (dim(lda), dim(ldb), dim(ldc));
    let (alpha, beta) = (*alpha, *beta);
    let (ar, ac) = if ta { (k, m) } else { (m, k) };
    let (br, bc) = if tb { (n, k) } else { (k, n) };
    let a = from_raw_parts(a, need(lda, ar, ac));
    let b = from_raw_parts(b, need(ldb, br, bc));
    let c = from_raw_parts_mut(c, need(ldc, m, n));
    for j in 0..n {
        for i in 0..m {
            let mut s = 0.0;
            for l in 0..k {
                let av = if ta { a[l + i * lda] } else { a[i + l * lda] };
                let bv = if tb { b[j + l * ldb] } else { b[l + j * ldb] };
                s += av * bv;
            }
            let idx = i + j * ldc;
            c[idx] = if beta == 0.0 { alpha * s } else { alpha * s + beta * c[idx] };
        }
    }
}

#[no_mangle]
pub unsafe extern "C" fn dgemv_(
    trans: *const c_char,
    m: *const c_int,
    n: *const c_int,
    alpha: *const f64,
    a: *const f64,
    lda: *const c_int,
    x: *const f64,
    incx: *const c_int,
    beta: *const f64,
    y: *mut f64,
    incy: *const c_int,
) {
    let t = tr(trans);
    let (m, n, lda) = (dim(m), dim(n), dim(lda));
    assert!(*incx == 1 && *incy == 1, "refblas: only unit strides supported");
    let (alpha, beta) = (*alpha, *beta);
    let a = from_raw_parts(a, need(lda, m, n));
    let (lx, ly) = if t { (m, n) } else { (n, m) };
    let x = from_raw_parts(x, lx);
    let y = from_raw_parts_mut(y, ly);
    for i in 0..ly {
        let mut s = 0.0;
        for l in 0..lx {
            let av = if t { a[l + i * lda] } else { a[i + l * lda] };
            s += av * x[l];
        }
        y[i] = if beta == 0.0 { alpha * s } else { alpha * s + beta * y[i] };
    }
}

#[no_mangle]
pub unsafe extern "C" fn dsymv_(
    uplo: *const c_char,
    n: *const c_int,
    alpha: *const f64,
    a: *const f64,
    lda: *const c_int,
    x: *const f64,
    incx: *const c_int,
    beta: *const f64,
    y: *mut f64,
    incy: *const c_int,
) {
    let u = up(uplo);
    let (n, lda) = (dim(n), dim(lda));
    assert!(*incx == 1 && *incy == 1, "refblas: only unit strides supported");
    let (alpha, beta) = (*alpha, *beta);
    let a = from_raw_parts(a, need(lda, n, n));
    let x = from_raw_parts(x, n);
    let y = from_raw_parts_mut(y, n);
    for i in 0..n {
        let mut s = 0.0;
        for j in 0..n {
            let (r, c) = if (i <= j) == u { (i, j) } else { (j, i) };
            s += a[r + c * lda] * x[j];
        }
        y[i] = if beta == 0.0 { alpha * s } else { alpha * s + beta * y[i] };
    }
}

#[no_mangle]
pub unsafe extern "C" fn dsyrk_(
    uplo: *const c_char,
    trans: *const c_char,
    n: *const c_int,
    k: *const c_int,
    alpha: *const f64,
    a: *const f64,
    lda: *const c_int,
    beta: *const f64,
    c: *mut f64,
    ldc: *const c_int,
) {
    let (u, t) = (up(uplo), tr(trans));
    let (n, k, lda, ldc) = (dim(n), dim(k), dim(lda), dim(ldc));
    let (alpha, beta) = (*alpha, *beta);
    let (ar, ac) = if t { (k, n) } else { (n, k) };
    let a = from_raw_parts(a, need(lda, ar, ac));
    let c = from_raw_parts_mut(c, need(ldc, n, n));
    for j in 0..n {
        let (lo, hi) = if u { (0, j + 1) } else { (j, n) };
        for i in lo..hi {
            let mut s = 0.0;
            for l in 0..k {
                let (ai, aj) = if t { (a[l + i * lda], a[l + j * lda]) } else { (a[i + l * lda], a[j + l * lda]) };
                s += ai * aj;
            }
            let idx = i + j * ldc;
            c[idx] = if beta == 0.0 { alpha * s } else { alpha * s + beta * c[idx] };
        }
    }
}

#[no_mangle]
pub unsafe extern "C" fn dsyr2k_(
    uplo: *const c_char,
    trans: *const c_char,
    n: *const c_int,
    k: *const c_int,
    alpha: *const f64,
    a: *const f64,
    lda: *const c_int,
    b: *const f64,
    ldb: *const c_int,
    beta: *const f64,
    c: *mut f64,
    ldc: *const c_int,
) {
    let (u, t) = (up(uplo), tr(trans));
    let (n, k, lda, ldb, ldc) = (dim(n), dim(k), dim(lda), dim(ldb), dim(ldc));
    let (alpha, beta) = (*alpha, *beta);
    let (ar, ac) = if t { (k, n) } else { (n, k) };
    let a = from_raw_parts(a, need(lda, ar, ac));
    let b = from_raw_parts(b, need(ldb, ar, ac));
    let c = from_raw_parts_mut(c, need(ldc, n, n));
    for j in 0..n {
        let (lo, hi) = if u { (0, j + 1) } else { (j, n) };
        for i in lo..hi {
            let mut s = 0.0;
            for l in 0..k {
                let (ai, aj, bi, bj) = if t {
                    (a[l + i * lda], a[l + j * lda], b[l + i * ldb], b[l + j * ldb])
                } else {
                    (a[i + l * lda], a[j + l * lda], b[i + l * ldb], b[j + l * ldb])
                };
                s += ai * bj + bi * aj;
            }
            let idx = i + j * ldc;
            c[idx] = if beta == 0.0 { alpha * s } else { alpha * s + beta * c[idx] };
        }
    }
}

//! vkit: generators, oracles and bookkeeping for the Clarabel.rs runtime monitors.
//! Oracles here never call into `clarabel::algebra` for the quantity being judged.
#![allow(non_snake_case)]
#![allow(clippy::needless_range_loop)]
#![allow(clippy::too_many_arguments)]

pub mod cones;
pub mod dd;
pub mod dense;
pub mod gen;
pub mod jet;
pub mod kkt;
pub mod problem;
pub mod report;
pub mod rng;

pub use dd::DD;
pub use report::Ctx;
pub use rng::Rng;

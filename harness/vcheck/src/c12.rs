//! C12 — the sparse LDL' engine factors, solves, refactors correctly or reports errors.
//!
//! Oracles (all on the public `clarabel::qdldl` API):
//!  * dense double-double reference LDL' of P A P' with the same regularisation rule
//!    (pivots within a don't-care band of the threshold are skipped);
//!  * reconstruction  |PAP' - LDL'| <= c n u |L||D||L'|  off the regularised pivots;
//!  * solve residual in double-double;  positive_inertia = #{D>0} (= #positive eigenvalues);
//!  * refactor after update/scale/offset histories bit-identical to a fresh factorisation;
//!  * error contract: non-square / non-triu / empty column / invalid permutation / zero pivot => Err.

use clarabel::algebra::CscMatrix;
use clarabel::qdldl::*;
use serde_json::json;
use vkit::dense::Dense;
use vkit::report::catch;
use vkit::{Ctx, Rng, DD};

const U: f64 = 1.1102230246251565e-16;

fn csc_json(c: &CscMatrix<f64>) -> serde_json::Value {
    json!({"m": c.m, "n": c.n, "colptr": c.colptr, "rowval": c.rowval, "nzval": c.nzval})
}

fn is_perm(p: &[usize], n: usize) -> bool {
    if p.len() != n {
        return false;
    }
    let mut seen = vec![false; n];
    for &x in p {
        if x >= n || seen[x] {
            return false;
        }
        seen[x] = true;
    }
    true
}

/// all permutations of 0..n in lexicographic order
fn all_perms(n: usize) -> Vec<Vec<usize>> {
    fn rec(cur: &mut Vec<usize>, used: &mut Vec<bool>, n: usize, out: &mut Vec<Vec<usize>>) {
        if cur.len() == n {
            out.push(cur.clone());
            return;
        }
        for i in 0..n {
            if !used[i] {
                used[i] = true;
                cur.push(i);
                rec(cur, used, n, out);
                cur.pop();
                used[i] = false;
            }
        }
    }
    let mut out = vec![];
    rec(&mut vec![], &mut vec![false; n], n, &mut out);
    out
}

struct RefLdl {
    l: Vec<DD>, // n*n row-major strictly lower
    d: Vec<DD>,
    regularized: Vec<bool>,
    /// some decision (threshold test, exact-zero test) falls inside the rounding
    /// uncertainty of the f64 computation: nothing after it can be predicted
    dontcare: bool,
    zero_pivot: Option<usize>,
    /// per pivot: |A_kk| + sum |L_kj|^2 |D_j|  (magnitude that entered the pivot)
    mag: Vec<f64>,
    /// per pivot: accumulated conditioning max_{j<=k} mag_j/|D_j|
    cond: Vec<f64>,
}

/// dense reference LDL' (double-double) of the symmetric matrix `a` (row-major, already permuted)
fn ref_ldl(n: usize, a: &Dense, signs: &[i8], reg: bool, eps: f64, delta: f64) -> RefLdl {
    let mut l = vec![DD::ZERO; n * n];
    let mut d = vec![DD::ZERO; n];
    let mut regularized = vec![false; n];
    let mut dontcare = false;
    let mut mag = vec![0.0; n];
    let mut cond = vec![1.0; n];
    let mut cacc = 1.0f64;
    for k in 0..n {
        let mut dk = DD::new(a.get(k, k));
        let mut mk = a.get(k, k).abs();
        let mut fill_terms = 0;
        for j in 0..k {
            let t = l[k * n + j] * l[k * n + j] * d[j];
            if t.hi != 0.0 {
                fill_terms += 1;
            }
            mk += t.f().abs();
            dk = dk - t;
        }
        mag[k] = mk;
        // rounding uncertainty of the implementation's own f64 value of this pivot
        let unc = if fill_terms == 0 { 0.0 } else { 1e3 * (n as f64 + 1.0) * U * mk * cacc.min(1e12) };
        if reg {
            let s = signs[k] as f64;
            let v = dk.f() * s;
            if fill_terms > 0 && (v - eps).abs() <= unc + 1e-2 * eps {
                dontcare = true;
            }
            if v < eps {
                dk = DD::new(delta * s);
                regularized[k] = true;
            }
        }
        if !regularized[k] && fill_terms > 0 && dk.f().abs() <= unc {
            // the exact-zero test of the implementation cannot be predicted
            dontcare = true;
        }
        if dk.hi == 0.0 && dk.lo == 0.0 {
            return RefLdl { l, d, regularized, dontcare, zero_pivot: Some(k), mag, cond };
        }
        d[k] = dk;
        cacc = cacc.max(mk / dk.f().abs().max(1e-300));
        cond[k] = cacc;
        for i in k + 1..n {
            let mut v = DD::new(a.get(i, k));
            for j in 0..k {
                v = v - l[i * n + j] * l[k * n + j] * d[j];
            }
            l[i * n + k] = v / dk;
        }
    }
    RefLdl { l, d, regularized, dontcare, zero_pivot: None, mag, cond }
}

fn permuted_dense(asym: &Dense, perm: &[usize]) -> Dense {
    let n = asym.n;
    let mut p = Dense::zeros(n, n);
    for i in 0..n {
        for j in 0..n {
            p.set(i, j, asym.get(perm[i], perm[j]));
        }
    }
    p
}

struct Inst {
    n: usize,
    a: CscMatrix<f64>, // triu
    signs: Vec<i8>,
    perm: Option<Vec<usize>>,
    reg: bool,
    eps: f64,
    delta: f64,
}

impl Inst {
    fn json(&self) -> serde_json::Value {
        json!({"A_triu": csc_json(&self.a), "Dsigns": self.signs, "perm": self.perm, "regularize": self.reg, "eps": self.eps, "delta": self.delta})
    }
    fn opts(&self) -> QDLDLSettings<f64> {
        let mut o = QDLDLSettingsBuilder::default()
            .Dsigns(self.signs.clone())
            .regularize_enable(self.reg)
            .regularize_eps(self.eps)
            .regularize_delta(self.delta)
            .build()
            .unwrap();
        o.perm = self.perm.clone();
        o
    }
}

/// factor + all oracles on one instance.  Returns the factorisation when Ok.
fn check_instance(ctx: &mut Ctx, wl: &str, case: u64, inst: &Inst, rng: &mut Rng) -> Option<QDLDLFactorisation<f64>> {
    let n = inst.n;
    let inp = inst.json();
    let opts = inst.opts();
    let a2 = inst.a.clone();
    let res = catch(move || QDLDLFactorisation::<f64>::new(&a2, Some(opts)));
    ctx.eval(1);
    let res = match res {
        Ok(r) => r,
        Err(msg) => {
            ctx.violation("factor:panic", "factor:panic", wl, case, json!({"input": inp, "panic": msg}));
            return None;
        }
    };
    let asym = Dense::from_csc(&inst.a).sym_from_triu();
    match res {
        Err(e) => {
            // only a zero pivot is a legitimate error on structurally valid input
            let perm = match &inst.perm {
                Some(p) => p.clone(),
                None => {
                    // AMD ordering unknown => cannot predict; accept ZeroPivot only
                    if !matches!(e, QDLDLError::ZeroPivot) {
                        ctx.violation("factor:unexpected-error", "factor:unexpected-error", wl, case, json!({"input": inp, "error": format!("{e:?}")}));
                    } else {
                        ctx.bump("zero_pivot_err_amd");
                    }
                    return None;
                }
            };
            let ps: Vec<i8> = perm.iter().map(|&p| inst.signs[p]).collect();
            let r = ref_ldl(n, &permuted_dense(&asym, &perm), &ps, inst.reg, inst.eps, inst.delta);
            if matches!(e, QDLDLError::ZeroPivot) {
                if r.zero_pivot.is_none() && !r.dontcare {
                    ctx.violation("factor:spurious-zero-pivot", "factor:spurious-zero-pivot", wl, case, json!({"input": inp}));
                } else {
                    ctx.bump("zero_pivot_err");
                }
            } else {
                ctx.violation("factor:unexpected-error", "factor:unexpected-error", wl, case, json!({"input": inp, "error": format!("{e:?}")}));
            }
            None
        }
        Ok(mut f) => {
            // permutation must be a permutation
            ctx.eval(1);
            if !is_perm(&f.perm, n) {
                ctx.violation("factor:perm-not-permutation", "factor:perm-not-permutation", wl, case, json!({"input": inp, "perm": f.perm}));
                return None;
            }
            if let Some(p) = &inst.perm {
                if &f.perm != p {
                    ctx.violation("factor:perm-changed", "factor:perm-changed", wl, case, json!({"input": inp, "perm": f.perm}));
                }
            }
            let perm = f.perm.clone();
            let ps: Vec<i8> = perm.iter().map(|&p| inst.signs[p]).collect();
            let pap = permuted_dense(&asym, &perm);
            let r = ref_ldl(n, &pap, &ps, inst.reg, inst.eps, inst.delta);
            ctx.bump(if r.dontcare { "instances_with_undecidable_pivot_(skipped_value_checks)" } else { "instances_fully_decided" });
            let _ = &r.l;
            if let Some(k) = r.zero_pivot {
                if !r.dontcare {
                    ctx.violation("factor:missed-zero-pivot", "factor:missed-zero-pivot", wl, case, json!({"input": inp, "pivot": k, "D": f.D}));
                }
                return Some(f);
            }
            // structure of L: strictly lower, canonical enough to decode
            let ld = Dense::from_csc(&f.L);
            let mut ok_struct = f.L.m == n && f.L.n == n && f.D.len() == n && f.Dinv.len() == n;
            for j in 0..n {
                for k in f.L.colptr[j]..f.L.colptr[j + 1] {
                    if f.L.rowval[k] <= j {
                        ok_struct = false;
                    }
                }
            }
            ctx.eval(1);
            if !ok_struct {
                ctx.violation("factor:L-structure", "factor:L-structure", wl, case, json!({"input": inp, "L": csc_json(&f.L)}));
                return Some(f);
            }
            // growth-aware scale: max over |L||D||L'|
            let mut growth = 0.0f64;
            let mut recon = vec![DD::ZERO; n * n];
            for i in 0..n {
                for j in 0..=i {
                    let mut s = DD::ZERO;
                    let mut sa = 0.0;
                    for k in 0..=j {
                        let lik = if i == k { 1.0 } else { ld.get(i, k) };
                        let ljk = if j == k { 1.0 } else { ld.get(j, k) };
                        s = s + DD::new(lik) * DD::new(ljk) * DD::new(f.D[k]);
                        sa += (lik * ljk * f.D[k]).abs();
                    }
                    recon[i * n + j] = s;
                    growth = growth.max(sa);
                }
            }
            let scale = growth.max(pap.max_abs());
            let tol = 64.0 * (n as f64 + 1.0) * U * scale;
            let mut worst = 0.0f64;
            let mut bad = None;
            for i in 0..n {
                for j in 0..=i {
                    let mut e = (recon[i * n + j] - DD::new(pap.get(i, j))).f().abs();
                    if i == j && r.regularized[i] {
                        // a regularised pivot perturbs the diagonal by design
                        e = 0.0;
                    }
                    if e > worst {
                        worst = e;
                    }
                    if e > tol && !r.dontcare {
                        bad = Some((i, j, e));
                    }
                }
            }
            ctx.eval(1);
            ctx.observe_max("recon_err_over_u_scale", worst / (U * scale.max(1e-300)));
            if let Some((i, j, e)) = bad {
                ctx.violation("factor:reconstruction", "factor:reconstruction", wl, case, json!({"input": inp, "at": [i, j], "err": e, "tol": tol, "D": f.D, "L": csc_json(&f.L), "perm": perm}));
            }
            // pivots: regularised exactly delta*sign, count, others close to the reference
            if !r.dontcare {
                ctx.eval(1);
                let nreg = r.regularized.iter().filter(|&&b| b).count();
                if f.regularize_count() != nreg {
                    ctx.violation("factor:regularize_count", "factor:regularize_count", wl, case, json!({"input": inp, "got": f.regularize_count(), "want": nreg, "D": f.D, "ref_regularized": r.regularized, "perm": perm}));
                }
                for k in 0..n {
                    if r.regularized[k] {
                        if f.D[k] != inst.delta * ps[k] as f64 {
                            ctx.violation("factor:regularized-pivot-value", "factor:regularized-pivot-value", wl, case, json!({"input": inp, "k": k, "got": f.D[k], "want": inst.delta * ps[k] as f64, "perm": perm}));
                            break;
                        }
                    } else {
                        let want = r.d[k].f();
                        let cprev = if k == 0 { 1.0 } else { r.cond[k - 1] };
                        if cprev > 1e8 {
                            break; // unbounded growth: forward comparison of pivots is meaningless
                        }
                        let nn = n as f64 + 1.0;
                        if (f.D[k] - want).abs() > 1e3 * nn * nn * U * r.mag[k] * cprev {
                            ctx.violation("factor:pivot-value", "factor:pivot-value", wl, case, json!({"input": inp, "k": k, "got": f.D[k], "want": want, "perm": perm}));
                            break;
                        }
                    }
                }
            }
            // Dinv
            ctx.eval(1);
            for k in 0..n {
                if f.Dinv[k] != 1.0 / f.D[k] {
                    ctx.violation("factor:Dinv", "factor:Dinv", wl, case, json!({"input": inp, "k": k, "D": f.D[k], "Dinv": f.Dinv[k]}));
                    break;
                }
            }
            // inertia
            ctx.eval(1);
            let npos = f.D.iter().filter(|&&d| d > 0.0).count();
            if f.positive_inertia() != npos {
                ctx.violation("factor:positive_inertia", "factor:positive_inertia", wl, case, json!({"input": inp, "got": f.positive_inertia(), "count_D_positive": npos, "D": f.D}));
            }
            if !r.regularized.iter().any(|&b| b) && !r.dontcare && n > 0 {
                let ev = asym.eigvals_sym();
                let sc = asym.max_abs().max(1e-300);
                if ev.iter().all(|e| e.abs() > 1e-7 * sc) && growth < 1e6 * sc {
                    let want = ev.iter().filter(|&&e| e > 0.0).count();
                    ctx.eval(1);
                    ctx.bump("inertia_vs_eigenvalues");
                    if f.positive_inertia() != want {
                        ctx.violation("factor:inertia-vs-eigs", "factor:inertia-vs-eigs", wl, case, json!({"input": inp, "got": f.positive_inertia(), "eigs": ev}));
                    }
                }
            }
            // solve: residual against the matrix actually factored (A + regularisation perturbation)
            if n > 0 {
                let b: Vec<f64> = (0..n).map(|_| rng.small_int_val(4)).collect();
                let mut x = b.clone();
                let sr = catch(std::panic::AssertUnwindSafe(|| f.solve(&mut x)));
                ctx.eval(1);
                if let Err(msg) = sr {
                    ctx.violation("solve:panic", "solve:panic", wl, case, json!({"input": inp, "panic": msg}));
                } else if !r.dontcare {
                    // effective matrix: A_eff = P'(LDL')P ; check A_eff x = b through A + E
                    let ax = asym.matvec_dd(&x);
                    let mut worst = 0.0f64;
                    let xn = x.iter().fold(0.0f64, |m, v| m.max(v.abs()));
                    for i in 0..n {
                        // position of original index i in the permuted order
                        let k = perm.iter().position(|&p| p == i).unwrap();
                        let mut ri = ax[i] - DD::new(b[i]);
                        if r.regularized[k] {
                            let e = DD::new(f.D[k]) - (DD::new(pap.get(k, k)) - {
                                let mut s = DD::ZERO;
                                for j in 0..k {
                                    s = s + DD::new(ld.get(k, j)) * DD::new(ld.get(k, j)) * DD::new(f.D[j]);
                                }
                                s
                            });
                            ri = ri + e * DD::new(x[i]);
                        }
                        worst = worst.max(ri.f().abs());
                    }
                    // growth in the solve: bound by cond-like factor through |L|,|Dinv|
                    let dmin = f.D.iter().fold(f64::INFINITY, |m, d| m.min(d.abs()));
                    let lmax = ld.max_abs().max(1.0);
                    let amp = (scale / dmin.max(1e-300)).max(1.0) * lmax.powi(2);
                    let tol = 256.0 * (n as f64 + 1.0) * U * (scale * xn + b.iter().fold(0.0f64, |m, v| m.max(v.abs()))) * amp.min(1e14);
                    ctx.observe_max("solve_residual_over_tol", worst / tol.max(1e-300));
                    if worst > tol && amp < 1e10 {
                        ctx.violation("solve:residual", "solve:residual", wl, case, json!({"input": inp, "b": b, "x": x, "residual": worst, "tol": tol, "perm": perm}));
                    }
                }
            }
            Some(f)
        }
    }
}

fn build_matrix(n: usize, pat_bits: u64, signs: &[i8], rng: &mut Rng, style: u8) -> CscMatrix<f64> {
    // pattern bits over triu positions (j major, i<=j)
    let mut d = Dense::zeros(n, n);
    let mut pat = vec![false; n * n];
    let mut bit = 0;
    for j in 0..n {
        for i in 0..=j {
            if (pat_bits >> bit) & 1 == 1 {
                pat[i * n + j] = true;
                let v = if i == j {
                    let mag = match style {
                        0 => rng.usize(2, 5) as f64 * 2.0, // dominant, exact
                        1 => rng.range(1.0, 4.0) * 3.0,
                        _ => rng.range(0.5, 2.0),
                    };
                    signs[j] as f64 * mag
                } else {
                    match style {
                        0 => rng.small_int_val(2),
                        _ => rng.range(-1.0, 1.0),
                    }
                };
                d.set(i, j, v);
            }
            bit += 1;
        }
    }
    d.to_csc_pattern(&pat)
}

fn has_empty_col(n: usize, pat_bits: u64) -> bool {
    let mut bit = 0;
    for j in 0..n {
        let mut any = false;
        for _i in 0..=j {
            if (pat_bits >> bit) & 1 == 1 {
                any = true;
            }
            bit += 1;
        }
        if !any {
            return true;
        }
    }
    false
}

/// W1: exhaustive patterns x orderings x sign vectors for small n
fn w_exhaustive(ctx: &mut Ctx) {
    let wl = "exhaustive";
    let nmax = if ctx.flavour == "miri" { 3 } else { 4 };
    // case = (n, pattern); orderings and signs enumerated inside
    let mut cases: Vec<(usize, u64)> = vec![];
    for n in 1..=nmax {
        let nb = n * (n + 1) / 2;
        for p in 0..(1u64 << nb) {
            cases.push((n, p));
        }
    }
    let total = cases.len() as u64;
    for case in ctx.cases(wl, total) {
        if ctx.out_of_budget() {
            continue;
        }
        let (n, pbits) = cases[case as usize];
        ctx.begin(wl, case);
        let mut rng = Rng::for_case(ctx.seed, "C12/exhaustive", case);
        let perms = all_perms(n);
        if has_empty_col(n, pbits) {
            // error contract: empty column => Err(EmptyColumn) for every ordering
            let signs = vec![1i8; n];
            let a = build_matrix(n, pbits, &signs, &mut rng, 0);
            let inst = Inst { n, a, signs, perm: Some(perms[0].clone()), reg: true, eps: 1e-12, delta: 1e-7 };
            let a2 = inst.a.clone();
            let o = inst.opts();
            ctx.eval(1);
            match catch(move || QDLDLFactorisation::<f64>::new(&a2, Some(o)).map(|_| ())) {
                Ok(Err(QDLDLError::EmptyColumn)) => ctx.bump("err_empty_column"),
                Ok(other) => ctx.violation("contract:empty-column", "contract:empty-column", wl, case, json!({"input": inst.json(), "got": format!("{other:?}")})),
                Err(msg) => ctx.violation("contract:empty-column", "contract:empty-column:panic", wl, case, json!({"input": inst.json(), "panic": msg})),
            }
            ctx.nontrivial_n(1);
            continue;
        }
        for sbits in 0..(1u32 << n) {
            let signs: Vec<i8> = (0..n).map(|i| if (sbits >> i) & 1 == 1 { -1 } else { 1 }).collect();
            // style 0: exact small-integer data (regularisation decisions are exact)
            let a = build_matrix(n, pbits, &signs, &mut rng, 0);
            for perm in &perms {
                let inst = Inst { n, a: a.clone(), signs: signs.clone(), perm: Some(perm.clone()), reg: true, eps: 1e-12, delta: 1e-7 };
                check_instance(ctx, wl, case, &inst, &mut rng);
            }
            // one ordering with float data, regularisation off
            let a = build_matrix(n, pbits, &signs, &mut rng, 1);
            let perm = rng.choose(&perms).clone();
            let inst = Inst { n, a, signs: signs.clone(), perm: Some(perm), reg: false, eps: 1e-12, delta: 1e-7 };
            check_instance(ctx, wl, case, &inst, &mut rng);
        }
        // AMD ordering (perm = None)
        let signs: Vec<i8> = (0..n).map(|_| if rng.bool(0.5) { -1 } else { 1 }).collect();
        let a = build_matrix(n, pbits, &signs, &mut rng, 1);
        let inst = Inst { n, a, signs, perm: None, reg: true, eps: 1e-12, delta: 1e-7 };
        check_instance(ctx, wl, case, &inst, &mut rng);
        ctx.nontrivial_n(1);
        if case % 301 == 7 {
            ctx.sample(json!({"workload": wl, "n": n, "pattern_bits": pbits, "orderings": perms.len(), "sign_vectors": 1 << n}));
        }
    }
}

/// W2: regularisation decisions — planted wrong-sign / zero / tiny pivots
fn w_regularisation(ctx: &mut Ctx) {
    let wl = "regularisation";
    let total = ctx.count(4000, 100000);
    for case in ctx.cases(wl, total) {
        if ctx.out_of_budget() {
            continue;
        }
        ctx.begin(wl, case);
        let mut rng = Rng::for_case(ctx.seed, "C12/regularisation", case);
        let n = rng.usize(1, 7);
        let signs: Vec<i8> = (0..n).map(|_| if rng.bool(0.5) { -1 } else { 1 }).collect();
        let mut d = Dense::zeros(n, n);
        let mut pat = vec![false; n * n];
        let dens = *rng.choose(&[0.0, 0.2, 0.5]);
        // quasi-definite base with exact data, then plant anomalies on the diagonal
        for j in 0..n {
            pat[j * n + j] = true;
            d.set(j, j, signs[j] as f64 * 8.0);
            for i in 0..j {
                // only couple opposite-sign blocks so that the base is quasi definite
                if signs[i] != signs[j] && rng.bool(dens) {
                    pat[i * n + j] = true;
                    d.set(i, j, rng.small_int_val(1));
                }
            }
        }
        let mut planted = 0;
        let (eps, delta) = *rng.choose(&[(1e-12, 1e-7), (1e-13, 2e-7), (1e-6, 1e-3), (0.0, 1e-7), (0.5, 1e-3)]);
        for j in 0..n {
            let r = rng.unif();
            if r > 0.9 {
                // a pivot sitting exactly ON the threshold: "below eps" is a strict comparison
                d.set(j, j, signs[j] as f64 * eps);
                planted += 1;
                continue;
            }
            if r < 0.15 {
                d.set(j, j, -(signs[j] as f64) * 4.0); // wrong sign
                planted += 1;
            } else if r < 0.25 {
                d.set(j, j, 0.0); // structural zero pivot
                planted += 1;
            } else if r < 0.32 {
                d.set(j, j, signs[j] as f64 * 1e-14); // below eps
                planted += 1;
            } else if r < 0.38 {
                d.set(j, j, signs[j] as f64 * 1e-9); // above eps: must NOT be regularised
            }
        }
        let a = d.to_csc_pattern(&pat);
        let perm = if rng.bool(0.8) { Some(rng.perm(n)) } else { None };
        let reg = rng.bool(0.8);
        let inst = Inst { n, a, signs, perm, reg, eps, delta };
        let f = check_instance(ctx, wl, case, &inst, &mut rng);
        if let Some(f) = f {
            if f.regularize_count() > 0 {
                ctx.bump("instances_with_regularised_pivots");
            }
        }
        if planted > 0 {
            ctx.bump("instances_with_planted_anomalies");
        }
        let mut h = vkit::report::hash_new();
        vkit::report::hash_f64s(&mut h, &d.a);
        vkit::report::hash_usizes(&mut h, inst.perm.as_deref().unwrap_or(&[]));
        ctx.nontrivial_hash(h);
    }
    // exact zero pivots with regularisation off => Err(ZeroPivot)
    let wl2 = "zero_pivot";
    let total = ctx.count(600, 10000);
    for case in ctx.cases(wl2, total) {
        ctx.begin(wl2, case);
        let mut rng = Rng::for_case(ctx.seed, "C12/zero_pivot", case);
        let n = rng.usize(2, 6);
        let k = rng.usize(0, n - 2);
        let mut d = Dense::zeros(n, n);
        let mut pat = vec![false; n * n];
        for j in 0..n {
            pat[j * n + j] = true;
            d.set(j, j, 4.0);
        }
        // 2x2 block [[d, v],[v, v^2/d]] at (k,k+1) => second pivot exactly zero; identity order
        let dv = *rng.choose(&[1.0, 2.0, 4.0]);
        let v = *rng.choose(&[1.0, 2.0, -2.0, 4.0]);
        d.set(k, k, dv);
        d.set(k, k + 1, v);
        pat[k * n + k + 1] = true;
        d.set(k + 1, k + 1, v * v / dv);
        let a = d.to_csc_pattern(&pat);
        let inst = Inst { n, a, signs: vec![1; n], perm: Some((0..n).collect()), reg: false, eps: 1e-12, delta: 1e-7 };
        let a2 = inst.a.clone();
        let o = inst.opts();
        ctx.eval(1);
        match catch(move || QDLDLFactorisation::<f64>::new(&a2, Some(o)).map(|f| f.D.clone())) {
            Ok(Err(QDLDLError::ZeroPivot)) => ctx.bump("err_zero_pivot"),
            Ok(other) => ctx.violation("contract:zero-pivot", "contract:zero-pivot", wl2, case, json!({"input": inst.json(), "got": format!("{other:?}")})),
            Err(msg) => ctx.violation("contract:zero-pivot", "contract:zero-pivot:panic", wl2, case, json!({"input": inst.json(), "panic": msg})),
        }
        // same matrix with regularisation on: must succeed and regularise exactly that pivot
        let inst2 = Inst { reg: true, ..Inst { n, a: inst.a.clone(), signs: vec![1; n], perm: inst.perm.clone(), reg: true, eps: 1e-12, delta: 1e-7 } };
        check_instance(ctx, wl2, case, &inst2, &mut rng);
        ctx.nontrivial_n(1);
    }
}

/// W3: error contract — shapes and permutation vectors
fn w_contract(ctx: &mut Ctx) {
    let wl = "contract";
    // all vectors in {0..n}^n for n<=4 as candidate permutations, on a fixed valid matrix per n
    let mut cands: Vec<(usize, Vec<usize>)> = vec![];
    for n in 1..=4usize {
        let tot = (n + 1).pow(n as u32);
        for c in 0..tot {
            let mut x = c;
            let v: Vec<usize> = (0..n)
                .map(|_| {
                    let d = x % (n + 1);
                    x /= n + 1;
                    d
                })
                .collect();
            cands.push((n, v));
        }
    }
    let total = cands.len() as u64;
    for case in ctx.cases(wl, total) {
        let (n, p) = cands[case as usize].clone();
        if case % 64 == 0 {
            ctx.begin(wl, case);
        }
        let mut rng = Rng::for_case(ctx.seed, "C12/contract", case);
        // arrow-ish quasi definite matrix with all entries distinct so that a wrong solve is visible
        let mut d = Dense::zeros(n, n);
        for j in 0..n {
            d.set(j, j, 10.0 + j as f64);
            for i in 0..j {
                d.set(i, j, 1.0 + 0.25 * (i + 2 * j) as f64);
            }
        }
        let a = d.to_csc();
        let valid = is_perm(&p, n);
        let inst = Inst { n, a: a.clone(), signs: vec![1; n], perm: Some(p.clone()), reg: true, eps: 1e-12, delta: 1e-7 };
        ctx.eval(1);
        if valid {
            check_instance(ctx, wl, case, &inst, &mut rng);
            ctx.bump("valid_perm_vectors");
        } else {
            let o = inst.opts();
            match catch(move || QDLDLFactorisation::<f64>::new(&a, Some(o)).map(|_| ())) {
                Ok(Err(QDLDLError::InvalidPermutation)) => ctx.bump("err_invalid_permutation"),
                Ok(Err(e)) => ctx.violation("contract:invalid-perm-error-kind", "contract:invalid-perm-error-kind", wl, case, json!({"perm": p, "n": n, "error": format!("{e:?}")})),
                Ok(Ok(())) => {
                    let kind = if p.iter().all(|&x| x < n) { "repeated-entries" } else { "out-of-range" };
                    ctx.violation("contract:invalid-perm-accepted", &format!("contract:invalid-perm-accepted:{kind}"), wl, case, json!({"perm": p, "n": n, "note": "QDLDLFactorisation::new returned Ok for a vector that is not a permutation"}))
                }
                Err(msg) => ctx.violation("contract:invalid-perm-panic", "contract:invalid-perm-panic", wl, case, json!({"perm": p, "n": n, "panic": msg})),
            }
        }
        ctx.nontrivial_n(1);
    }
    // wrong-length permutation vectors: Err or panic accepted, Ok is not
    let wl2 = "contract_shapes";
    if ctx.cases(wl2, 1).contains(&0) || ctx.is_replay() {
        for case in ctx.cases(wl2, 1) {
            ctx.begin(wl2, case);
            let a: CscMatrix<f64> = Dense::eye(3).to_csc();
            for p in [vec![], vec![0], vec![0, 1], vec![0, 1, 2, 3], vec![2, 1, 0, 0]] {
                let mut o = QDLDLSettingsBuilder::<f64>::default().build().unwrap();
                o.perm = Some(p.clone());
                let a2 = a.clone();
                ctx.eval(1);
                match catch(move || QDLDLFactorisation::<f64>::new(&a2, Some(o)).map(|_| ())) {
                    Ok(Ok(())) => ctx.violation("contract:wrong-length-perm-accepted", "contract:wrong-length-perm-accepted", wl2, case, json!({"perm": p})),
                    _ => ctx.bump("wrong_length_perm_rejected"),
                }
            }
            // non-square
            let ns = Dense::zeros(2, 3).to_csc();
            ctx.eval(1);
            match catch(move || QDLDLFactorisation::<f64>::new(&ns, None).map(|_| ())) {
                Ok(Err(QDLDLError::IncompatibleDimension)) => ctx.bump("err_non_square"),
                other => ctx.violation("contract:non-square", "contract:non-square", wl2, case, json!({"got": format!("{other:?}")})),
            }
            // not upper triangular (all lower-triangle placements for n=3)
            for bits in 1..8u32 {
                let mut d = Dense::eye(3);
                let pos = [(1, 0), (2, 0), (2, 1)];
                for (k, &(i, j)) in pos.iter().enumerate() {
                    if (bits >> k) & 1 == 1 {
                        d.set(i, j, 1.0);
                    }
                }
                let m = d.to_csc();
                // the same matrix with the entries of every column stored in reverse / rotated order: where an
                // entry sits inside its column must not matter for the triangularity test
                let mut variants = vec![("sorted", m.clone())];
                for (name, rot) in [("reversed", 0usize), ("rotated", 1usize)] {
                    let mut v = m.clone();
                    for j in 0..v.n {
                        let (a, b) = (v.colptr[j], v.colptr[j + 1]);
                        if rot == 0 {
                            v.rowval[a..b].reverse();
                            v.nzval[a..b].reverse();
                        } else if b - a > 1 {
                            v.rowval[a..b].rotate_left(1);
                            v.nzval[a..b].rotate_left(1);
                        }
                    }
                    variants.push((name, v));
                }
                for (vname, m) in variants {
                    ctx.eval(1);
                    match catch(move || QDLDLFactorisation::<f64>::new(&m, None).map(|_| ())) {
                        Ok(Err(QDLDLError::NotUpperTriangular)) => ctx.bump("err_not_triu"),
                        other => ctx.violation("contract:not-triu", &format!("contract:not-triu:{vname}"), wl2, case, json!({"lower_bits": bits, "column_order": vname, "got": format!("{other:?}")})),
                    }
                }
            }
            ctx.nontrivial_n(1);
        }
    }
}

fn random_structured(rng: &mut Rng, nmax: usize) -> (usize, Dense, Vec<bool>, Vec<i8>, &'static str) {
    let kind = rng.usize(0, 3);
    let n = rng.usize(2, nmax);
    let mut d = Dense::zeros(n, n);
    let mut pat = vec![false; n * n];
    let mut signs = vec![1i8; n];
    let name;
    match kind {
        0 => {
            name = "banded";
            let bw = rng.usize(1, 4);
            for j in 0..n {
                for i in j.saturating_sub(bw)..j {
                    if rng.bool(0.8) {
                        pat[i * n + j] = true;
                        d.set(i, j, rng.range(-1.0, 1.0));
                    }
                }
                pat[j * n + j] = true;
                d.set(j, j, 2.0 * bw as f64 + rng.range(1.0, 2.0));
            }
        }
        1 => {
            name = "arrow";
            for j in 0..n {
                pat[j * n + j] = true;
                d.set(j, j, n as f64 + rng.range(1.0, 2.0));
                if j == n - 1 {
                    for i in 0..j {
                        pat[i * n + j] = true;
                        d.set(i, j, rng.range(-1.0, 1.0));
                    }
                }
            }
        }
        2 => {
            name = "block";
            let bs = rng.usize(1, 4);
            for j in 0..n {
                pat[j * n + j] = true;
                d.set(j, j, bs as f64 + rng.range(1.0, 2.0));
                for i in (j / bs * bs)..j {
                    pat[i * n + j] = true;
                    d.set(i, j, rng.range(-1.0, 1.0));
                }
            }
        }
        _ => {
            name = "kkt";
            // [P A'; A -H] quasi definite
            let n1 = rng.usize(1, n - 1);
            for j in 0..n {
                pat[j * n + j] = true;
                if j < n1 {
                    d.set(j, j, rng.range(0.5, 3.0));
                } else {
                    signs[j] = -1;
                    d.set(j, j, -rng.range(0.5, 3.0));
                }
            }
            for j in n1..n {
                for i in 0..n1 {
                    if rng.bool(0.3) {
                        pat[i * n + j] = true;
                        d.set(i, j, rng.range(-2.0, 2.0));
                    }
                }
            }
            // some P off-diagonals keeping diagonal dominance
            for j in 0..n1 {
                for i in 0..j {
                    if rng.bool(0.1) {
                        pat[i * n + j] = true;
                        d.set(i, j, rng.range(-0.1, 0.1));
                    }
                }
            }
        }
    }
    (n, d, pat, signs, name)
}

/// W4: random larger structured matrices, AMD and explicit orderings
fn w_random(ctx: &mut Ctx) {
    let wl = "random";
    let total = ctx.count(600, 12000);
    let nmax = if ctx.flavour == "miri" { 8 } else if ctx.thorough() { 120 } else { 60 };
    for case in ctx.cases(wl, total) {
        if ctx.out_of_budget() {
            continue;
        }
        ctx.begin(wl, case);
        let mut rng = Rng::for_case(ctx.seed, "C12/random", case);
        let (n, d, pat, signs, name) = random_structured(&mut rng, nmax);
        let a = d.to_csc_pattern(&pat);
        let perm = if rng.bool(0.5) { None } else { Some(rng.perm(n)) };
        let inst = Inst { n, a, signs, perm, reg: true, eps: 1e-13, delta: 2e-7 };
        let f = check_instance(ctx, wl, case, &inst, &mut rng);
        ctx.bump(&format!("family_{name}"));
        // logical factorisation has the same L pattern as the numeric one
        if let Some(f) = f {
            let mut o = inst.opts();
            o.logical = true;
            o.perm = Some(f.perm.clone());
            ctx.eval(1);
            if let Ok(fl) = QDLDLFactorisation::<f64>::new(&inst.a, Some(o)) {
                if fl.L.colptr != f.L.colptr || fl.L.rowval != f.L.rowval {
                    ctx.violation("logical:pattern-differs", "logical:pattern-differs", wl, case, json!({"input": inst.json()}));
                }
            } else {
                ctx.violation("logical:error", "logical:error", wl, case, json!({"input": inst.json()}));
            }
        }
        let mut h = vkit::report::hash_new();
        vkit::report::hash_f64s(&mut h, &d.a);
        ctx.nontrivial_hash(h);
        if case < 2 {
            ctx.sample(json!({"workload": wl, "family": name, "n": n, "nnz": pat.iter().filter(|&&p| p).count()}));
        }
    }
}

/// W5: histories of update/scale/offset/refactor vs a fresh factorisation (bit identity)
fn w_histories(ctx: &mut Ctx) {
    let wl = "histories";
    let total = ctx.count(1500, 40000);
    let nmax = if ctx.flavour == "miri" { 6 } else { 25 };
    for case in ctx.cases(wl, total) {
        if ctx.out_of_budget() {
            continue;
        }
        ctx.begin(wl, case);
        let mut rng = Rng::for_case(ctx.seed, "C12/histories", case);
        let (n, mut d, mut pat, signs, _name) = random_structured(&mut rng, nmax);
        // a share of the instances has structurally absent diagonal entries (legal as long as no column of
        // the permuted triangle is empty): the pivot of such a column is pure accumulation
        let perm = rng.perm(n);
        if rng.bool(0.35) {
            let mut pos = vec![0usize; n];
            for (k, &v) in perm.iter().enumerate() {
                pos[v] = k;
            }
            let mut dropped = 0;
            for j in 0..n {
                // keep the column of j non-empty in the permuted upper triangle
                // (under either reading of the permutation vector)
                let has_earlier_neighbour = (0..n).any(|i| i != j && pat[i.min(j) * n + i.max(j)] && pos[i] < pos[j])
                    && (0..n).any(|i| i != j && pat[i.min(j) * n + i.max(j)] && perm[i] < perm[j])
                    && (0..j).any(|i| pat[i * n + j]);
                if has_earlier_neighbour && rng.bool(0.4) {
                    pat[j * n + j] = false;
                    d.set(j, j, 0.0);
                    dropped += 1;
                }
            }
            if dropped > 0 {
                ctx.bump("history_instances_with_absent_diagonal_entries");
            }
        }
        let a = d.to_csc_pattern(&pat);
        // a third of the histories run without regularisation and may flip the sign of diagonal entries, so that the
        // inertia (and everything derived from the pivots' signs) changes between factorisations
        let free_signs = rng.bool(0.33);
        if free_signs {
            ctx.bump("history_instances_with_sign_flips");
        }
        let mk_opts = |perm: &Vec<usize>, signs: &Vec<i8>| {
            let mut o = QDLDLSettingsBuilder::<f64>::default().Dsigns(signs.clone()).regularize_enable(!free_signs).regularize_eps(1e-13).regularize_delta(2e-7).build().unwrap();
            o.perm = Some(perm.clone());
            o
        };
        let mut live = match QDLDLFactorisation::<f64>::new(&a, Some(mk_opts(&perm, &signs))) {
            Ok(f) => f,
            Err(e) => {
                ctx.inconclusive(&format!("initial factorisation failed: {e:?}"), wl, case);
                continue;
            }
        };
        let mut model = a.clone();
        let nnz = model.nnz();
        let hist_len = rng.usize(1, 10);
        let mut hist = vec![];
        let mut failed = false;
        for _step in 0..hist_len {
            let op = rng.usize(0, 3);
            let k = rng.usize(1, nnz.min(6));
            let idx: Vec<usize> = (0..k).map(|_| rng.usize(0, nnz - 1)).collect();
            match op {
                0 => {
                    // update values; keep diagonal signs so the matrix stays factorable
                    let vals: Vec<f64> = idx
                        .iter()
                        .map(|&i| {
                            let (r, c) = model.index_to_coord(i);
                            if r == c {
                                let flip = if free_signs && rng.bool(0.4) { -1.0 } else { 1.0 };
                                flip * signs[c] as f64 * rng.range(3.0, 9.0)
                            } else {
                                rng.range(-1.0, 1.0)
                            }
                        })
                        .collect();
                    live.update_values(&idx, &vals);
                    for (t, &i) in idx.iter().enumerate() {
                        model.nzval[i] = vals[t];
                    }
                    hist.push(json!({"op": "update_values", "idx": idx, "vals": vals}));
                }
                1 => {
                    let s = rng.range(0.5, 2.0);
                    // distinct indices (scaling twice the same entry is still well defined: applied twice)
                    live.scale_values(&idx, s);
                    for &i in &idx {
                        model.nzval[i] *= s;
                    }
                    hist.push(json!({"op": "scale_values", "idx": idx, "scale": s}));
                }
                2 => {
                    let off = rng.range(0.0, 0.5);
                    let sg: Vec<i8> = idx.iter().map(|_| *rng.choose(&[-1i8, 0, 1])).collect();
                    live.offset_values(&idx, off, &sg);
                    for (t, &i) in idx.iter().enumerate() {
                        match sg[t] {
                            1 => model.nzval[i] += off,
                            -1 => model.nzval[i] -= off,
                            _ => {}
                        }
                    }
                    hist.push(json!({"op": "offset_values", "idx": idx, "offset": off, "signs": sg}));
                }
                _ => {
                    hist.push(json!({"op": "refactor"}));
                    if live.refactor().is_err() {
                        failed = true;
                        break;
                    }
                }
            }
        }
        if failed {
            ctx.bump("history_refactor_error");
            continue;
        }
        hist.push(json!({"op": "refactor"}));
        let r1 = live.refactor();
        let fresh = QDLDLFactorisation::<f64>::new(&model, Some(mk_opts(&perm, &signs)));
        ctx.eval(1);
        let inp = json!({"A0": csc_json(&a), "Dsigns": signs, "perm": perm, "history": hist});
        match (r1, fresh) {
            (Ok(()), Ok(fr)) => {
                let same = live.L.colptr == fr.L.colptr
                    && live.L.rowval == fr.L.rowval
                    && live.L.nzval.iter().zip(&fr.L.nzval).all(|(a, b)| a.to_bits() == b.to_bits())
                    && live.D.iter().zip(&fr.D).all(|(a, b)| a.to_bits() == b.to_bits())
                    && live.Dinv.iter().zip(&fr.Dinv).all(|(a, b)| a.to_bits() == b.to_bits())
                    && live.positive_inertia() == fr.positive_inertia()
                    && live.regularize_count() == fr.regularize_count();
                if !same {
                    ctx.violation("refactor:not-bit-identical", "refactor:not-bit-identical", wl, case, json!({"input": inp, "live_D": live.D, "fresh_D": fr.D}));
                }
                // the engine's private copy equals the model (verif accessor)
                let vals = live.verif_values();
                ctx.eval(1);
                if vals.iter().zip(&model.nzval).any(|(a, b)| a.to_bits() != b.to_bits()) {
                    ctx.violation("refactor:internal-copy", "refactor:internal-copy", wl, case, json!({"input": inp}));
                }
                // solves agree bitwise too
                let b: Vec<f64> = (0..n).map(|_| rng.range(-1.0, 1.0)).collect();
                let (mut x1, mut x2) = (b.clone(), b.clone());
                live.solve(&mut x1);
                let mut fr = fr;
                fr.solve(&mut x2);
                ctx.eval(1);
                if x1.iter().zip(&x2).any(|(a, b)| a.to_bits() != b.to_bits()) {
                    ctx.violation("refactor:solve-differs", "refactor:solve-differs", wl, case, json!({"input": inp}));
                }
                ctx.bump(&format!("history_len_{}", hist_len.min(10)));
            }
            (Err(_), Err(_)) => ctx.bump("history_both_error"),
            (a, b) => ctx.violation("refactor:error-mismatch", "refactor:error-mismatch", wl, case, json!({"input": inp, "live": format!("{a:?}"), "fresh_ok": b.is_ok()})),
        }
        let mut h = vkit::report::hash_new();
        vkit::report::hash_f64s(&mut h, &model.nzval);
        vkit::report::hash_usizes(&mut h, &perm);
        ctx.nontrivial_hash(h);
        if case < 1 {
            ctx.sample(json!({"workload": wl, "n": n, "history": hist}));
        }
    }
}

pub fn run(ctx: &mut Ctx) {
    w_exhaustive(ctx);
    w_contract(ctx);
    if ctx.flavour == "miri" {
        // reduced random slices under the interpreter
        ctx.scale *= 0.02;
    }
    w_regularisation(ctx);
    w_random(ctx);
    w_histories(ctx);
}

//! ad-hoc debugging entry: vcheck dbg --replay <workload>:<case> (reuses generators by name)
use vkit::cones::*;
use vkit::problem;
use vkit::{Ctx, Rng};

pub fn run(ctx: &mut Ctx) {
    let (wl, case) = ctx.replay.clone().expect("dbg needs --replay");
    if wl == "powgrad" {
        use clarabel::verif::PowerCone;
        for (a, sv) in [(0.5, [1.0, 1.0, 0.5]), (0.5, [2.0, 3.0, -1.0]), (0.3, [1.0, 1.0, 0.5]), (0.7, [1.0, 1.0, 0.5]), (0.3, [1.0, 1.0, 0.05]), (0.3, [1.0, 1.0, 0.9]), (0.9, [1.0, 1.0, 0.5]), (0.1, [1.0, 1.0, 0.5])] {
            let c = PowerCone::<f64>::new(a);
            let g = c.verif_gradient_primal(&sv);
            let mg: Vec<f64> = g.iter().map(|v| -v).collect();
            let f = move |v: &[vkit::jet::Jet3]| {
                let al = [a, 1.0 - a];
                let mut lg = vkit::jet::Jet3::constant(0.0);
                for i in 0..2 {
                    lg = lg + vkit::jet::Jet3::constant(2.0 * al[i]) * (v[i] / vkit::jet::Jet3::constant(al[i])).ln();
                }
                let mut b = -((lg.exp() - v[2] * v[2]).ln());
                for i in 0..2 {
                    b = b - vkit::jet::Jet3::constant(1.0 - al[i]) * v[i].ln();
                }
                b
            };
            let back = vkit::jet::Deriv { f: &f, x: mg.clone() }.gradient();
            println!("alpha {a} s {sv:?} g {g:?} grad f*(-g) {back:?}  (want {:?})", sv.iter().map(|v| -v).collect::<Vec<_>>());
        }
        return;
    }
    if wl == "file" {
        // VERIF_DBG_FILE=<replay.json>: re-run the problem/settings pair stored anywhere inside it, verbosely;
        // VERIF_DBG_SET="key=value,..." overrides settings
        let path = std::env::var("VERIF_DBG_FILE").expect("VERIF_DBG_FILE");
        let v: serde_json::Value = serde_json::from_str(&std::fs::read_to_string(path).unwrap()).unwrap();
        fn find<'a>(v: &'a serde_json::Value, key: &str) -> Option<&'a serde_json::Value> {
            match v {
                serde_json::Value::Object(o) => {
                    if let Some(x) = o.get(key) {
                        if x.is_object() {
                            return Some(x);
                        }
                    }
                    o.values().find_map(|x| find(x, key))
                }
                serde_json::Value::Array(a) => a.iter().find_map(|x| find(x, key)),
                _ => None,
            }
        }
        let p = problem::Problem::from_json(find(&v, "problem").or_else(|| find(&v, "base")).expect("no problem in file")).expect("unparsable problem");
        let mut sj = find(&v, "settings").cloned().unwrap_or_else(|| problem::settings_json(&vkit::gen::default_settings()));
        if let Ok(ov) = std::env::var("VERIF_DBG_SET") {
            for kv in ov.split(',') {
                let (k, val) = kv.split_once('=').unwrap();
                sj[k] = serde_json::from_str(val).unwrap_or_else(|_| serde_json::Value::String(val.to_string()));
            }
        }
        if sj["time_limit"].is_null() {
            sj["time_limit"] = serde_json::json!(1e300);
        }
        let mut st: clarabel::solver::DefaultSettings<f64> = serde_json::from_value(sj).expect("settings");
        st.time_limit = if st.time_limit >= 1e300 { f64::INFINITY } else { st.time_limit };
        st.verbose = true;
        let (r, ev, cones) = problem::run_traced(&p, &st);
        let r = r.unwrap();
        println!("status {} iters {} internal cones {}", problem::status_name(r.status), r.iterations, problem::cones_json(&cones));
        for e in &ev {
            let nrm = e.x.iter().chain(&e.s).chain(&e.z).fold(0.0f64, |m, v| m.max(v.abs()));
            println!("it {:3} {:?} a {:.2e} tau {:.3e} kap {:.3e} mu {:.3e} |xsz| {:.2e} pres {:.2e} dres {:.2e} bz {:.3e} qx {:.3e} {}", e.iterations, e.kind, e.step_length, e.τ, e.κ, e.μ, nrm, e.res_primal, e.res_dual, e.dot_bz, e.dot_qx, problem::status_name(e.status));
            if std::env::var("VERIF_DBG_VECS").is_ok() {
                println!("       s {:?}\n       z {:?}", e.s, e.z);
            }
        }
        return;
    }
    if wl == "hist" {
        // VERIF_DBG_FILE=<C08 replay>: rebuild the initial solver, re-apply the recorded updates (vector and
        // (index,value) forms), then solve with a trace
        let path = std::env::var("VERIF_DBG_FILE").expect("VERIF_DBG_FILE");
        let v: serde_json::Value = serde_json::from_str(&std::fs::read_to_string(path).unwrap()).unwrap();
        let det = &v["detail"];
        let p = problem::Problem::from_json(&det["initial_problem"]).expect("initial_problem");
        let mut sj = det["settings"].clone();
        if sj["time_limit"].is_null() {
            sj["time_limit"] = serde_json::json!(1e300);
        }
        let mut st: clarabel::solver::DefaultSettings<f64> = serde_json::from_value(sj).expect("settings");
        st.time_limit = f64::INFINITY;
        let mut solver = problem::new_solver(&p, &st).unwrap();
        for h in det["history"].as_array().unwrap() {
            let op = h["op"].as_str().unwrap_or("");
            let vals: Vec<f64> = h["values"].as_array().map(|a| a.iter().map(|x| x.as_f64().unwrap()).collect()).unwrap_or_default();
            let idx: Option<Vec<usize>> = h["index"].as_array().map(|a| a.iter().map(|x| x.as_u64().unwrap() as usize).collect());
            let r = match (op, idx) {
                ("update_b", None) => solver.update_b(&vals).map_err(|e| format!("{e:?}")),
                ("update_q", None) => solver.update_q(&vals).map_err(|e| format!("{e:?}")),
                ("update_P", None) => solver.update_P(&vals).map_err(|e| format!("{e:?}")),
                ("update_A", None) => solver.update_A(&vals).map_err(|e| format!("{e:?}")),
                ("update_b", Some(i)) => solver.update_b(&(i, vals)).map_err(|e| format!("{e:?}")),
                ("update_q", Some(i)) => solver.update_q(&(i, vals)).map_err(|e| format!("{e:?}")),
                ("update_P", Some(i)) => solver.update_P(&(i, vals)).map_err(|e| format!("{e:?}")),
                ("update_A", Some(i)) => solver.update_A(&(i, vals)).map_err(|e| format!("{e:?}")),
                ("solve", _) => {
                    let ev = problem::solve_observed(&mut solver).unwrap();
                    println!("solve -> {} after {} iterations (recorded: {})", problem::status_name(solver.solution.status), solver.solution.iterations, h["status"]);
                    for e in &ev {
                        println!("  it {:3} {:?} a {:.2e} tau {:.3e} kap {:.3e} mu {:.3e} pres {:.2e} dres {:.2e} bz {:.3e} qx {:.3e} {}", e.iterations, e.kind, e.step_length, e.τ, e.κ, e.μ, e.res_primal, e.res_dual, e.dot_bz, e.dot_qx, problem::status_name(e.status));
                    }
                    Ok(())
                }
                (o, _) => Err(format!("unsupported op {o}")),
            };
            println!("{op}: {r:?}");
        }
        return;
    }
    if wl == "C05r" {
        crate::c05::dbg_repeat(ctx.seed, case);
        return;
    }
    if wl == "C05v" {
        crate::c05::dbg_variants(ctx.seed, case, 10);
        return;
    }
    let (p, st) = match wl.as_str() {
        "C06" => {
            let mut rng = Rng::for_case(ctx.seed, "C06/family_G", case);
            (crate::c06::family_g(&mut rng).problem, vkit::gen::default_settings())
        }
        _ => panic!("unknown dbg workload"),
    };
    let (r, ev, cones) = problem::run_traced(&p, &st);
    println!("result: {:?}", r.as_ref().map(|x| problem::status_name(x.status)));
    println!("cones: {}", problem::cones_json(&cones));
    for e in &ev {
        let mut worst = (f64::INFINITY, 0, 'z');
        for (i, (c, rg)) in cones.iter().zip(cone_ranges(&cones)).enumerate() {
            if cone_dim(c) == 0 || matches!(c, ConeT::ZeroConeT(_)) {
                continue;
            }
            let (mz, sz) = margin(c, &e.z[rg.clone()], true);
            let (ms, ss) = margin(c, &e.s[rg.clone()], false);
            if mz / sz < worst.0 {
                worst = (mz / sz, i, 'z');
            }
            if ms / ss < worst.0 {
                worst = (ms / ss, i, 's');
            }
        }
        println!("it {:3} alpha {:.3e} tau {:.3e} kappa {:.3e} mu {:.3e} worst rel margin {:.3e} (cone {} {})", e.iterations, e.step_length, e.τ, e.κ, e.μ, worst.0, worst.1, worst.2);
    }
}

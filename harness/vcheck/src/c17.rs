//! C17 — chordal analysis yields a valid, covering clique tree.
#![cfg(feature = "sdp")]
use clarabel::algebra::CscMatrix;
use clarabel::solver::SupportedConeT;
use clarabel::verif::{TreeDump, VerifChordal, VerifDisjointSetUnion, VERIF_NO_PARENT};
use serde_json::json;
use std::collections::{BTreeSet, HashSet};
use vkit::gen;
use vkit::{Ctx, Rng};

/// adjacency (upper triangle i<j) -> the data handed to the analysis: a PSD cone of order n whose
/// aggregate pattern over [A b] is exactly the given graph plus the diagonal
fn problem_for(n: usize, edges: &[(usize, usize)], rng: &mut Rng) -> (CscMatrix<f64>, Vec<f64>) {
    let m = n * (n + 1) / 2;
    let idx = |i: usize, j: usize| -> usize {
        let (i, j) = if i <= j { (i, j) } else { (j, i) };
        j * (j + 1) / 2 + i
    };
    let mut b = vec![0.0; m];
    let (mut ii, mut jj, mut vv) = (vec![], vec![], vec![]);
    let ncol = 2;
    for &(i, j) in edges {
        let r = idx(i, j);
        // mark the entry through A, through b (either sign), or both
        match rng.usize(0, 3) {
            0 => {
                ii.push(r);
                jj.push(rng.usize(0, ncol - 1));
                vv.push(rng.range(0.5, 1.5));
            }
            1 => b[r] = rng.range(0.5, 1.5),
            2 => b[r] = -rng.range(0.5, 1.5),
            _ => {
                ii.push(r);
                jj.push(0);
                vv.push(-1.0);
                b[r] = 1.0;
            }
        }
    }
    // some diagonal entries present, others left to the analysis to force
    for i in 0..n {
        if rng.bool(0.5) {
            ii.push(idx(i, i));
            jj.push(1);
            vv.push(1.0);
        }
    }
    (CscMatrix::new_from_triplets(m, ncol, ii, jj, vv), b)
}

fn settings(merge: &str) -> clarabel::solver::DefaultSettings<f64> {
    let mut st = gen::default_settings();
    st.chordal_decomposition_enable = true;
    st.chordal_decomposition_merge_method = merge.to_string();
    st
}

/// graph-theoretic validation of one tree; returns the first refuted clause
fn validate(n: usize, edges: &[(usize, usize)], t: &TreeDump) -> Option<(String, serde_json::Value)> {
    // ordering is a permutation
    if t.ordering.len() != n {
        return Some(("ordering_length".into(), json!({"len": t.ordering.len(), "n": n})));
    }
    let mut seen = vec![false; n];
    for &v in &t.ordering {
        if v >= n || seen[v] {
            return Some(("ordering_not_permutation".into(), json!({"ordering": t.ordering})));
        }
        seen[v] = true;
    }
    let nc = t.n_cliques;
    if t.snode_post.len() != nc {
        return Some(("post_length".into(), json!({"post": t.snode_post, "n_cliques": nc})));
    }
    let active: Vec<usize> = t.snode_post.clone();
    let aset: HashSet<usize> = active.iter().copied().collect();
    if aset.len() != nc || active.iter().any(|&c| c >= t.snode.len()) {
        return Some(("post_not_distinct".into(), json!({"post": t.snode_post})));
    }
    // supernodes: non-empty, partition 0..n, consecutive ranges in post order
    let mut next = 0usize;
    for &c in &active {
        let s = &t.snode[c];
        if s.is_empty() {
            return Some(("empty_active_supernode".into(), json!({"clique": c})));
        }
        let mut sorted = s.clone();
        sorted.sort();
        for (k, &v) in sorted.iter().enumerate() {
            if v != next + k {
                return Some(("supernodes_not_consecutive_partition".into(), json!({"clique": c, "snode": s, "expected_start": next})));
            }
        }
        next += s.len();
    }
    if next != n {
        return Some(("supernodes_do_not_cover_vertices".into(), json!({"covered": next, "n": n})));
    }
    // cliques in tree labels and in original labels
    let clique = |c: usize| -> BTreeSet<usize> { t.snode[c].iter().chain(t.separators[c].iter()).copied().collect() };
    for &c in &active {
        if clique(c).iter().any(|&v| v >= n) {
            return Some(("clique_vertex_out_of_range".into(), json!({"clique": c})));
        }
        if t.snode[c].iter().any(|v| t.separators[c].contains(v)) {
            return Some(("separator_overlaps_supernode".into(), json!({"clique": c})));
        }
    }
    let orig = |c: usize| -> BTreeSet<usize> { clique(c).iter().map(|&v| t.ordering[v]).collect() };
    // cover: every structurally nonzero (i,j) and the diagonal
    let ocl: Vec<BTreeSet<usize>> = active.iter().map(|&c| orig(c)).collect();
    for v in 0..n {
        if !ocl.iter().any(|s| s.contains(&v)) {
            return Some(("vertex_not_covered".into(), json!({"vertex": v})));
        }
    }
    for &(i, j) in edges {
        if !ocl.iter().any(|s| s.contains(&i) && s.contains(&j)) {
            return Some(("edge_not_covered".into(), json!({"edge": [i, j]})));
        }
    }
    // tree: one root, parents active, acyclic, connected
    let mut roots = 0;
    for &c in &active {
        let p = t.snode_parent[c];
        if p == VERIF_NO_PARENT {
            roots += 1;
        } else if !aset.contains(&p) {
            return Some(("parent_not_active".into(), json!({"clique": c, "parent": p})));
        }
    }
    if roots != 1 {
        return Some(("not_single_root".into(), json!({"roots": roots, "parents": active.iter().map(|&c| t.snode_parent[c] as i64).collect::<Vec<_>>()})));
    }
    for &c in &active {
        let mut cur = c;
        let mut steps = 0;
        while t.snode_parent[cur] != VERIF_NO_PARENT {
            cur = t.snode_parent[cur];
            steps += 1;
            if steps > nc {
                return Some(("parent_cycle".into(), json!({"from": c})));
            }
        }
    }
    // post is a post-order: every clique appears before its parent
    let pos = |c: usize| active.iter().position(|&x| x == c).unwrap();
    for &c in &active {
        let p = t.snode_parent[c];
        if p != VERIF_NO_PARENT && pos(c) > pos(p) {
            return Some(("post_is_not_a_postorder".into(), json!({"clique": c, "parent": p, "post": t.snode_post})));
        }
    }
    // separators = clique ∩ parent clique (root: empty)
    for &c in &active {
        let p = t.snode_parent[c];
        let sep: BTreeSet<usize> = t.separators[c].iter().copied().collect();
        if p == VERIF_NO_PARENT {
            if !sep.is_empty() {
                return Some(("root_separator_not_empty".into(), json!({"clique": c, "separator": sep})));
            }
        } else {
            let inter: BTreeSet<usize> = clique(c).intersection(&clique(p)).copied().collect();
            if inter != sep {
                return Some(("separator_ne_intersection_with_parent".into(), json!({"clique": c, "parent": p, "separator": sep, "intersection": inter})));
            }
        }
    }
    // running intersection: cliques containing a vertex induce a connected subtree
    for v in 0..n {
        let holders: Vec<usize> = active.iter().copied().filter(|&c| clique(c).contains(&v)).collect();
        if holders.is_empty() {
            return Some(("tree_vertex_in_no_clique".into(), json!({"vertex": v})));
        }
        // connected iff exactly one holder has no holder parent
        let hs: HashSet<usize> = holders.iter().copied().collect();
        let tops = holders.iter().filter(|&&c| t.snode_parent[c] == VERIF_NO_PARENT || !hs.contains(&t.snode_parent[c])).count();
        if tops != 1 {
            return Some(("running_intersection_violated".into(), json!({"vertex": v, "holders": holders})));
        }
    }
    // block sizes
    match &t.nblk {
        None => return Some(("nblk_missing".into(), json!({}))),
        Some(nb) => {
            if nb.len() != nc {
                return Some(("nblk_length".into(), json!({"nblk": nb})));
            }
            for (i, &c) in active.iter().enumerate() {
                if nb[i] != clique(c).len() {
                    return Some(("nblk_wrong".into(), json!({"i": i, "nblk": nb[i], "clique_size": clique(c).len()})));
                }
            }
        }
    }
    None
}

/// Is the pattern complete after symbolic elimination in the ordering the analysis uses?  The ordering is the
/// permutation of a logical QDLDL factorisation of the pattern matrix (public API, the engine C12 checks); the
/// elimination game itself is the harness's own.
fn filled_pattern_is_complete(n: usize, edges: &[(usize, usize)]) -> Option<bool> {
    let (mut rows, mut cols) = (vec![], vec![]);
    for j in 0..n {
        rows.push(j);
        cols.push(j);
    }
    for &(i, j) in edges {
        rows.push(i.min(j));
        cols.push(i.max(j));
    }
    let vals = vec![1f64; rows.len()];
    let pattern = CscMatrix::new_from_triplets(n, n, rows, cols, vals);
    let opts = clarabel::qdldl::QDLDLSettingsBuilder::default().logical(true).build().ok()?;
    let f = clarabel::qdldl::QDLDLFactorisation::<f64>::new(&pattern, Some(opts)).ok()?;
    let perm = f.perm.clone();
    let mut adj: Vec<BTreeSet<usize>> = vec![BTreeSet::new(); n];
    for &(i, j) in edges {
        adj[i].insert(j);
        adj[j].insert(i);
    }
    let mut gone = vec![false; n];
    for &v in &perm {
        let nb: Vec<usize> = adj[v].iter().copied().filter(|u| !gone[*u]).collect();
        for a in 0..nb.len() {
            for b in a + 1..nb.len() {
                adj[nb[a]].insert(nb[b]);
                adj[nb[b]].insert(nb[a]);
            }
        }
        gone[v] = true;
    }
    // the analysis then links disconnected parts: a column of the filled factor without any entry below its
    // diagonal (other than the last one) receives the entry right below the diagonal
    let mut pos = vec![0usize; n];
    for (k, &v) in perm.iter().enumerate() {
        pos[v] = k;
    }
    let mut links = vec![];
    for j in 0..n.saturating_sub(1) {
        let v = perm[j];
        if !adj[v].iter().any(|u| pos[*u] > j) {
            links.push((v, perm[j + 1]));
        }
    }
    for (a, b) in links {
        adj[a].insert(b);
        adj[b].insert(a);
    }
    let total: usize = adj.iter().map(|s| s.len()).sum::<usize>() / 2;
    Some(total == n * (n - 1) / 2)
}

fn run_graph(ctx: &mut Ctx, wl: &str, case: u64, n: usize, edges: &[(usize, usize)], family: &str, rng: &mut Rng) {
    let full = edges.len() == n * (n - 1) / 2;
    for merge in ["none", "parent_child", "clique_graph"] {
        let (a, b) = problem_for(n, edges, rng);
        // half of the time the PSD cone is not the first cone of the problem: rows of other cones (dense, so that
        // they say nothing about the pattern) come first, and the tree must still be found and carry the right
        // cone index
        let lead: Vec<SupportedConeT<f64>> = if rng.bool(0.5) {
            (0..rng.usize(1, 3)).map(|_| match rng.usize(0, 3) {
                0 => SupportedConeT::NonnegativeConeT(rng.usize(1, 3)),
                1 => SupportedConeT::SecondOrderConeT(rng.usize(2, 4)),
                2 => SupportedConeT::ZeroConeT(rng.usize(1, 2)),
                _ => SupportedConeT::ExponentialConeT(),
            }).collect()
        } else {
            vec![]
        };
        let lead_rows: usize = lead.iter().map(|c| match c {
            SupportedConeT::NonnegativeConeT(d) | SupportedConeT::SecondOrderConeT(d) | SupportedConeT::ZeroConeT(d) => *d,
            _ => 3,
        }).sum();
        let psd_index = lead.len();
        let (a, b) = if lead_rows > 0 {
            let (mut ii, mut jj, mut vv) = (vec![], vec![], vec![]);
            for i in 0..lead_rows {
                for j in 0..a.n {
                    ii.push(i);
                    jj.push(j);
                    vv.push(rng.range(0.5, 1.5));
                }
            }
            for j in 0..a.n {
                for k in a.colptr[j]..a.colptr[j + 1] {
                    ii.push(a.rowval[k] + lead_rows);
                    jj.push(j);
                    vv.push(a.nzval[k]);
                }
            }
            let mut b2: Vec<f64> = (0..lead_rows).map(|_| rng.range(0.5, 1.5)).collect();
            b2.extend_from_slice(&b);
            (CscMatrix::new_from_triplets(a.m + lead_rows, a.n, ii, jj, vv), b2)
        } else {
            (a, b)
        };
        let mut cones = lead;
        cones.push(SupportedConeT::PSDTriangleConeT(n));
        if psd_index > 0 {
            ctx.bump("patterns_with_other_cones_in_front");
        }
        let st = settings(merge);
        let r = vkit::report::catch(std::panic::AssertUnwindSafe(|| {
            let vc = VerifChordal::new(&a, &b, &cones, &st);
            vc.trees()
        }));
        ctx.eval(1);
        let inp = || json!({"n": n, "edges": edges, "merge": merge, "family": family, "cones_in_front": psd_index});
        match r {
            Err(msg) => {
                let site = msg.rsplit(" @ ").next().unwrap_or("").replace("/repo/", "");
                ctx.violation("analysis_panic", &format!("analysis_panic:{site}"), wl, case, json!({"input": inp(), "panic": msg}));
            }
            Ok(trees) => {
                if trees.is_empty() {
                    ctx.bump(&format!("undecomposed_{merge}"));
                    if full {
                        ctx.bump("undecomposed_dense");
                    } else if merge == "none" {
                        // nothing is merged: the pattern may stay undecomposed only if elimination fills it up
                        match filled_pattern_is_complete(n, edges) {
                            Some(false) => ctx.violation("undecomposed_though_filled_pattern_is_not_complete", "undecomposed_though_filled_pattern_is_not_complete:none", wl, case, json!({"input": inp()})),
                            Some(true) => ctx.bump("undecomposed_none_because_fill_completes_the_pattern"),
                            None => ctx.bump("undecomposed_none_not_judged"),
                        }
                    }
                    continue;
                }
                if full {
                    ctx.violation("dense_pattern_decomposed", "dense_pattern_decomposed", wl, case, json!({"input": inp()}));
                    continue;
                }
                if trees.len() != 1 || trees[0].orig_index != psd_index {
                    ctx.violation("tree_count", "tree_count", wl, case, json!({"input": inp(), "trees": trees.len()}));
                    continue;
                }
                let t = &trees[0];
                if t.n_cliques < 2 {
                    ctx.violation("single_clique_reported_as_decomposed", "single_clique_reported_as_decomposed", wl, case, json!({"input": inp()}));
                    continue;
                }
                ctx.bump(&format!("decomposed_{merge}"));
                ctx.observe_max("max_cliques", t.n_cliques as f64);
                if let Some((o, d)) = validate(n, edges, t) {
                    ctx.violation(&o, &format!("{o}:{merge}"), wl, case, json!({"input": inp(), "check": d, "tree": {"ordering": t.ordering, "snode": t.snode, "separators": t.separators, "parent": t.snode_parent.iter().map(|&p| p as i64).collect::<Vec<_>>(), "post": t.snode_post, "nblk": t.nblk}}));
                }
            }
        }
    }
}

fn random_graph(rng: &mut Rng, nmax: usize) -> (usize, Vec<(usize, usize)>, &'static str) {
    let n = rng.usize(4, nmax);
    let mut e: BTreeSet<(usize, usize)> = BTreeSet::new();
    let fam;
    match rng.usize(0, 6) {
        0 => {
            fam = "banded";
            let bw = rng.usize(1, 4.min(n - 1));
            for j in 0..n {
                for i in j.saturating_sub(bw)..j {
                    e.insert((i, j));
                }
            }
        }
        1 => {
            fam = "arrow";
            let k = rng.usize(1, 2.min(n - 1));
            for j in 0..n {
                for i in 0..k.min(j) {
                    e.insert((i, j));
                }
            }
        }
        2 => {
            fam = "block_diagonal";
            let bs = rng.usize(2, 6);
            for j in 0..n {
                for i in (j / bs * bs)..j {
                    e.insert((i, j));
                }
            }
        }
        3 => {
            fam = "disconnected";
            for j in 0..n {
                for i in 0..j {
                    if (i % 3 == j % 3) && rng.bool(0.5) {
                        e.insert((i, j));
                    }
                }
            }
        }
        4 | 5 => {
            // random chordal graph through a random perfect elimination ordering:
            // vertex v is joined to a random clique-subset of the later neighbourhood of an earlier vertex
            fam = "random_chordal";
            let perm = rng.perm(n);
            let mut nb: Vec<BTreeSet<usize>> = vec![BTreeSet::new(); n];
            for k in 1..n {
                let v = perm[k];
                let u = perm[rng.usize(0, k - 1)];
                // candidate clique: u and the neighbours of u among already placed vertices that form a clique with u
                let mut cl: Vec<usize> = vec![u];
                let cands: Vec<usize> = nb[u].iter().copied().collect();
                for w in cands {
                    if rng.bool(0.6) && cl.iter().all(|&x| x == w || nb[x].contains(&w)) {
                        cl.push(w);
                    }
                }
                for &w in &cl {
                    nb[v].insert(w);
                    nb[w].insert(v);
                }
            }
            for v in 0..n {
                for &w in &nb[v] {
                    if v < w {
                        e.insert((v, w));
                    }
                }
            }
        }
        _ => {
            fam = "random_nonchordal";
            let p = *rng.choose(&[0.05, 0.15, 0.3]);
            for j in 0..n {
                for i in 0..j {
                    if rng.bool(p) {
                        e.insert((i, j));
                    }
                }
            }
            // a long induced cycle
            for i in 0..n {
                let j = (i + 1) % n;
                e.insert((i.min(j), i.max(j)));
            }
        }
    }
    (n, e.into_iter().collect(), fam)
}

fn w_dsu(ctx: &mut Ctx) {
    let wl = "union_find";
    let total = ctx.count(400, 8000);
    for case in ctx.cases(wl, total) {
        if case % 64 == 0 {
            ctx.begin(wl, case);
        }
        let mut rng = Rng::for_case(ctx.seed, "C17/union_find", case);
        let n = rng.usize(2, 40);
        let mut dsu = VerifDisjointSetUnion::new(n);
        let mut label: Vec<usize> = (0..n).collect();
        let ops = rng.usize(1, 3 * n);
        let mut hist = vec![];
        let mut bad = None;
        for _ in 0..ops {
            let (x, y) = (rng.usize(0, n - 1), rng.usize(0, n - 1));
            if rng.bool(0.6) {
                dsu.union(x, y);
                let (lx, ly) = (label[x], label[y]);
                if lx != ly {
                    for l in label.iter_mut() {
                        if *l == ly {
                            *l = lx;
                        }
                    }
                }
                hist.push(json!(["union", x, y]));
            } else {
                let got = dsu.in_same_set(x, y);
                hist.push(json!(["same?", x, y, got]));
                ctx.eval(1);
                if got != (label[x] == label[y]) {
                    bad = Some((x, y, got));
                    break;
                }
            }
        }
        ctx.nontrivial_n(1);
        if let Some((x, y, got)) = bad {
            ctx.violation("union_find:in_same_set", "union_find:in_same_set", wl, case, json!({"n": n, "history": hist, "query": [x, y], "got": got, "want": !got}));
        }
    }
}

pub fn run(ctx: &mut Ctx) {
    if ctx.flavour != "miri" {
        w_dsu(ctx);
    }
    // exhaustive: all graphs on up to 5 (quick) / 6 (thorough; 7 with VERIF_C17_FULL) vertices
    let wl = "exhaustive";
    let nmax = if ctx.flavour == "miri" { 4 } else if ctx.thorough() { if std::env::var("VERIF_C17_FULL").is_ok() { 7 } else { 6 } } else { 5 };
    let mut offs = vec![];
    let mut total = 0u64;
    for n in 2..=nmax {
        offs.push((n, total));
        total += 1u64 << (n * (n - 1) / 2);
    }
    for case in ctx.cases(wl, total) {
        if ctx.out_of_budget() {
            continue;
        }
        let (n, off) = *offs.iter().rev().find(|(_, o)| *o <= case).unwrap();
        let bits = case - off;
        if case % 256 == 0 || ctx.flavour == "miri" {
            ctx.begin(wl, case);
        }
        let mut edges = vec![];
        let mut k = 0;
        for j in 0..n {
            for i in 0..j {
                if (bits >> k) & 1 == 1 {
                    edges.push((i, j));
                }
                k += 1;
            }
        }
        let mut rng = Rng::for_case(ctx.seed, "C17/exhaustive", case);
        run_graph(ctx, wl, case, n, &edges, "exhaustive", &mut rng);
        ctx.nontrivial_n(1);
        if case == 700 {
            ctx.sample(json!({"workload": wl, "n": n, "edges": edges}));
        }
    }
    if ctx.flavour == "miri" {
        return;
    }
    let wl = "random";
    let total = ctx.count(400, 6000);
    for case in ctx.cases(wl, total) {
        if ctx.out_of_budget() {
            continue;
        }
        ctx.begin(wl, case);
        let mut rng = Rng::for_case(ctx.seed, "C17/random", case);
        let nmax = *rng.choose(if ctx.thorough() { &[12usize, 30, 80, 200, 400][..] } else { &[12usize, 30, 60, 120][..] });
        let (n, edges, fam) = random_graph(&mut rng, nmax);
        ctx.bump(&format!("family_{fam}"));
        run_graph(ctx, wl, case, n, &edges, fam, &mut rng);
        ctx.nontrivial_n(1);
        if case < 2 {
            ctx.sample(json!({"workload": wl, "family": fam, "n": n, "n_edges": edges.len()}));
        }
    }
}

//! C18 — chordal decomposition and its reversal preserve the problem and its solution.
#![cfg(feature = "sdp")]
use crate::common::*;
use clarabel::solver::{DefaultSettings, SolverStatus};
use clarabel::verif::VerifChordal;
use serde_json::json;
use std::collections::BTreeSet;
use vkit::cones::{self as vc, cone_dim, cone_ranges, ConeT};
use vkit::dense::Dense;
use vkit::gen::{self, GenOpts};
use vkit::kkt;
use vkit::problem::{self, status_name, verdict_class, Problem};
use vkit::{Ctx, Rng};

fn tri_idx(i: usize, j: usize) -> usize {
    let (i, j) = if i <= j { (i, j) } else { (j, i) };
    j * (j + 1) / 2 + i
}

/// sparse symmetric pattern (edge list) of order n
fn random_pattern(rng: &mut Rng, n: usize) -> (BTreeSet<(usize, usize)>, &'static str) {
    let mut e = BTreeSet::new();
    let fam;
    // large orders: a dense block of nine or more vertices with a tail of small overlapping cliques (a merge that is
    // declined near the root and accepted below it needs a supernode of more than eight vertices)
    let pick = if n >= 11 { 4 } else { rng.usize(0, 3) };
    match pick {
        4 => {
            fam = "big_block_with_tail";
            let tail = rng.usize(2, n - 9);
            // tail: cliques of size 3..4 overlapping by two vertices
            let w = rng.usize(3, 4);
            let mut start = 0;
            while start + w <= tail + 2 {
                for j in start..start + w {
                    for i in start..j {
                        e.insert((i, j));
                    }
                }
                start += w - 2;
            }
            // the block: vertices tail..n, overlapping the tail by two vertices
            for j in tail.saturating_sub(0)..n {
                for i in tail..j {
                    e.insert((i, j));
                }
            }
            for j in tail..n {
                for i in tail.saturating_sub(2)..tail {
                    if rng.bool(0.8) {
                        e.insert((i, j));
                    }
                }
            }
            // keep the graph connected
            for j in 1..n {
                if !(0..j).any(|i| e.contains(&(i, j))) {
                    e.insert((j - 1, j));
                }
            }
        }
        0 => {
            fam = "banded";
            let bw = rng.usize(1, 2.min(n - 1));
            for j in 0..n {
                for i in j.saturating_sub(bw)..j {
                    e.insert((i, j));
                }
            }
        }
        1 => {
            fam = "arrow";
            for j in 1..n {
                e.insert((0, j));
            }
        }
        2 => {
            fam = "block";
            let bs = rng.usize(2, 3);
            for j in 0..n {
                for i in (j / bs * bs)..j {
                    e.insert((i, j));
                }
            }
            // link consecutive blocks by one vertex so that the graph is connected
            let mut k = bs;
            while k < n {
                e.insert((k - 1, k));
                k += bs;
            }
        }
        _ => {
            fam = "random_chordal";
            let perm = rng.perm(n);
            let mut nb: Vec<BTreeSet<usize>> = vec![BTreeSet::new(); n];
            for k in 1..n {
                let v = perm[k];
                let u = perm[rng.usize(0, k - 1)];
                let mut cl = vec![u];
                for w in nb[u].clone() {
                    if rng.bool(0.4) && cl.iter().all(|&x| x == w || nb[x].contains(&w)) {
                        cl.push(w);
                    }
                }
                for &w in &cl {
                    nb[v].insert(w);
                    nb[w].insert(v);
                }
            }
            for v in 0..n {
                for &w in &nb[v] {
                    if v < w {
                        e.insert((v, w));
                    }
                }
            }
        }
    }
    (e, fam)
}

pub struct Sdp {
    pub problem: Problem,
    pub x0: Vec<f64>,
    pub z0: Vec<f64>,
    pub p0: f64,
    pub d0: f64,
    pub psd_orders: Vec<usize>,
    pub families: Vec<&'static str>,
}

/// planted strictly feasible problem with sparse PSD constraints and other cones before/after them
pub fn sparse_sdp(rng: &mut Rng, with_inf: bool, small: bool) -> Sdp {
    let n = rng.usize(2, if small { 3 } else { 8 });
    let mut cones: Vec<ConeT> = vec![];
    let mut masks: Vec<Option<Vec<bool>>> = vec![]; // per cone: allowed rows (pattern) for PSD cones
    let mut psd_orders = vec![];
    let mut families = vec![];
    let npsd = rng.usize(1, if small { 1 } else { 3 });
    let other = GenOpts { kinds: vec!["NN", "Zero", "SOC", "Exp", "NN"], allow_empty_cones: false, mmax: 6, ..Default::default() };
    let mut placed = 0;
    let slots = npsd + rng.usize(0, 3);
    for slot in 0..slots {
        let want_psd = placed < npsd && (slots - slot == npsd - placed || rng.bool(0.5));
        if want_psd {
            let k = if !small && rng.bool(0.15) { rng.usize(11, 15) } else { rng.usize(4, if small { 4 } else { 10 }) };
            let (e, fam) = random_pattern(rng, k);
            let mut mask = vec![false; k * (k + 1) / 2];
            for i in 0..k {
                mask[tri_idx(i, i)] = true;
            }
            for &(i, j) in &e {
                mask[tri_idx(i, j)] = true;
            }
            cones.push(ConeT::PSDTriangleConeT(k));
            masks.push(Some(mask));
            psd_orders.push(k);
            families.push(fam);
            placed += 1;
        } else if let Some(c) = gen::random_cone(rng, *rng.clone().choose(&other.kinds), 6, &other) {
            if cone_dim(&c) > 0 && !kkt::is_singleton_nonneg(&c) {
                cones.push(c);
                masks.push(None);
            }
        }
    }
    let m = vc::total_dim(&cones);
    let mut a = Dense::zeros(m, n);
    let x0: Vec<f64> = (0..n).map(|_| rng.range(-1.0, 1.0)).collect();
    let mut s0 = vec![0.0; m];
    let mut z0 = vec![0.0; m];
    for ((c, r), mk) in cones.iter().zip(cone_ranges(&cones)).zip(&masks) {
        match mk {
            None => {
                for i in r.clone() {
                    for j in 0..n {
                        if rng.bool(0.6) {
                            a.set(i, j, rng.range(-1.0, 1.0));
                        }
                    }
                }
                let sv = vc::sample_interior(c, rng, false, 1.0, 0.5);
                let zv = vc::sample_interior(c, rng, true, 1.0, 0.5);
                s0[r.clone()].copy_from_slice(&sv);
                z0[r.clone()].copy_from_slice(&zv);
            }
            Some(mask) => {
                let k = if let ConeT::PSDTriangleConeT(k) = c { *k } else { 0 };
                for (t, i) in r.clone().enumerate() {
                    if mask[t] {
                        for j in 0..n {
                            if rng.bool(0.5) {
                                a.set(i, j, rng.range(-1.0, 1.0));
                            }
                        }
                    }
                }
                // S0: diagonally dominant on the pattern (so it is PD and respects the pattern)
                let mut smat = vec![0.0; k * k];
                for jx in 0..k {
                    for ix in 0..jx {
                        if mask[tri_idx(ix, jx)] {
                            let v = rng.range(-0.5, 0.5);
                            smat[ix * k + jx] = v;
                            smat[jx * k + ix] = v;
                        }
                    }
                }
                for ix in 0..k {
                    let rs: f64 = (0..k).map(|jx| smat[ix * k + jx].abs()).sum();
                    smat[ix * k + ix] = rs + rng.range(0.5, 1.5);
                }
                s0[r.clone()].copy_from_slice(&vc::mat_to_svec(k, &smat));
                let zv = vc::sample_interior(c, rng, true, 1.0, 0.5);
                z0[r.clone()].copy_from_slice(&zv);
            }
        }
    }
    let ax = a.matvec(&x0);
    let mut b: Vec<f64> = (0..m).map(|i| ax[i] + s0[i]).collect();
    // infinite bounds in nonnegative cones (dropped by presolve when enabled)
    if with_inf {
        for (c, r) in cones.iter().zip(cone_ranges(&cones)) {
            if let ConeT::NonnegativeConeT(_) = c {
                for i in r {
                    if rng.bool(0.5) {
                        b[i] = 1e20;
                        z0[i] = 0.0;
                    }
                }
            }
        }
    }
    let pd = if rng.bool(0.5) { gen::random_psd(rng, n, -1.0, 0.0) } else { Dense::zeros(n, n) };
    let px = pd.matvec(&x0);
    let atz = a.tmatvec(&z0);
    let q: Vec<f64> = (0..n).map(|j| -px[j] - atz[j]).collect();
    let xpx: f64 = (0..n).map(|j| px[j] * x0[j]).sum();
    let p0 = 0.5 * xpx + q.iter().zip(&x0).map(|(u, v)| u * v).sum::<f64>();
    let bc: Vec<f64> = b.iter().map(|v| v.min(1e20)).collect();
    let d0 = -bc.iter().zip(&z0).map(|(u, v)| u * v).sum::<f64>() - 0.5 * xpx;
    Sdp { problem: Problem { P: gen::p_to_csc(&pd, false), q, A: a.to_csc(), b, cones }, x0, z0, p0, d0, psd_orders, families }
}

fn chordal_settings(rng: &mut Rng) -> DefaultSettings<f64> {
    let mut st = gen::default_settings();
    st.chordal_decomposition_enable = true;
    st.chordal_decomposition_compact = rng.bool(0.5);
    st.chordal_decomposition_merge_method = rng.choose(&["none", "parent_child", "clique_graph"]).to_string();
    st.chordal_decomposition_complete_dual = rng.bool(0.5);
    st
}

fn settings_tag(st: &DefaultSettings<f64>) -> String {
    format!("{}:{}:{}", if st.chordal_decomposition_compact { "compact" } else { "standard" }, st.chordal_decomposition_merge_method, if st.chordal_decomposition_complete_dual { "complete" } else { "nocomplete" })
}

/// (a) synthetic conservation checks on the transformed problem and the reversal
fn synthetic_case(ctx: &mut Ctx, wl: &str, case: u64, rng: &mut Rng) {
    let sdp = sparse_sdp(rng, false, ctx.flavour == "miri");
    let p = &sdp.problem;
    let st = chordal_settings(rng);
    let (n, m) = (p.n(), p.m());
    let mut vcx = VerifChordal::new(&p.A, &p.b, &p.cones, &st);
    ctx.eval(1);
    if !vcx.is_decomposed() {
        ctx.bump("not_decomposed");
        return;
    }
    ctx.bump(&format!("decomposed_{}", settings_tag(&st)));
    ctx.nontrivial_hash(p.hash() ^ case);
    let trees = vcx.trees();
    let pt = p.P.to_triu();
    let aug = vcx.augment(&pt, &p.q, &p.A, &p.b, &st);
    let inp = || json!({"problem": p.to_json(), "settings_tag": settings_tag(&st)});
    let fail: std::cell::RefCell<Option<(String, serde_json::Value)>> = std::cell::RefCell::new(None);
    let bad = |o: &str, d: serde_json::Value| {
        let mut f = fail.borrow_mut();
        if f.is_none() {
            *f = Some((o.to_string(), d));
        }
    };
    let (n2, m2) = (aug.A.n, aug.A.m);
    if aug.q.len() != n2 || aug.b.len() != m2 || aug.P.n != n2 || aug.P.m != n2 || vc::total_dim(&aug.cones) != m2 || n2 < n {
        bad("augmented_dimensions", json!({"n2": n2, "m2": m2, "q": aug.q.len(), "b": aug.b.len(), "cones": vc::total_dim(&aug.cones)}));
    } else {
        // objective untouched: P_new = blkdiag(P,0), q_new = [q;0]
        let pd = Dense::from_csc(&aug.P);
        let p0 = Dense::from_csc(&pt);
        for i in 0..n2 {
            for j in 0..n2 {
                let want = if i < n && j < n { p0.get(i, j) } else { 0.0 };
                if pd.get(i, j) != want {
                    bad("P_not_preserved", json!({"i": i, "j": j}));
                }
            }
            let wq = if i < n { p.q[i] } else { 0.0 };
            if aug.q[i] != wq {
                bad("q_not_preserved", json!({"i": i}));
            }
        }
        // conservation: for a random x_aug, the reversed slack equals b - A x on every original row,
        // whatever the overlap variables are
        let ad = Dense::from_csc(&aug.A);
        let a0 = Dense::from_csc(&p.A);
        for trial in 0..3 {
            let xa: Vec<f64> = (0..n2).map(|j| if trial == 0 && j >= n { 0.0 } else { rng.range(-2.0, 2.0) }).collect();
            let ax = ad.matvec(&xa);
            let sa: Vec<f64> = (0..m2).map(|i| aug.b[i] - ax[i]).collect();
            let za = vec![0.0; m2];
            let mut st_nc = st.clone();
            st_nc.chordal_decomposition_complete_dual = false;
            let (xr, sr, _zr) = vcx.reverse(&xa, &sa, &za, &aug.cones, &st_nc);
            if xr.len() != n || sr.len() != m {
                bad("reversed_sizes", json!({"x": xr.len(), "s": sr.len(), "n": n, "m": m}));
                break;
            }
            if xr.iter().zip(&xa[..n]).any(|(u, v)| u.to_bits() != v.to_bits()) {
                bad("reversed_x", json!({}));
            }
            let a0x = a0.matvec(&xa[..n]);
            let want: Vec<f64> = if st.chordal_decomposition_compact {
                (0..m).map(|i| p.b[i] - a0x[i]).collect()
            } else {
                // standard form: rows 0..m of the augmented problem are the equality b - A x - H s2 = 0;
                // the reversed slack is H s2, so (equality residual) + (reversed slack) = b - A x
                (0..m).map(|i| p.b[i] - a0x[i] - sa[i]).collect()
            };
            let sc = want.iter().fold(1.0f64, |mx, v| mx.max(v.abs()));
            for i in 0..m {
                if (sr[i] - want[i]).abs() > 1e-12 * sc * (m as f64) {
                    bad("slack_conservation", json!({"row": i, "reversed_s": sr[i], "b_minus_Ax": want[i], "trial": trial}));
                    break;
                }
            }
        }
        // dual: consistent clique blocks of a full matrix Z are mapped back to Z on the pattern;
        // with completion the result is PSD and agrees with Z inside the cliques
        let ranges = cone_ranges(&p.cones);
        let mut zfull = vec![0.0; m];
        let mut zmats: Vec<Option<(usize, Vec<f64>)>> = vec![];
        for (c, r) in p.cones.iter().zip(ranges.clone()) {
            let zv = vc::sample_interior(c, rng, true, 1.0, 0.5);
            zfull[r.clone()].copy_from_slice(&zv);
            if let ConeT::PSDTriangleConeT(k) = c {
                zmats.push(Some((*k, vc::svec_to_mat(*k, &zv))));
            } else {
                zmats.push(None);
            }
        }
        // build z_aug block by block following the generated cone list
        let mut za = vec![0.0; m2];
        let mut ok_layout = true;
        let clique_of = |tree: usize, cl: usize| -> Vec<usize> {
            let t = &trees[tree];
            let c = t.snode_post[cl];
            let mut v: Vec<usize> = t.snode[c].iter().chain(t.separators[c].iter()).map(|&x| t.ordering[x]).collect();
            v.sort();
            v
        };
        let mut in_clique: Vec<Vec<bool>> = p.cones.iter().map(|c| vec![false; cone_dim(c)]).collect();
        if st.chordal_decomposition_compact {
            match vcx.cone_maps() {
                None => bad("cone_maps_missing", json!({})),
                Some(maps) => {
                    if maps.len() != aug.cones.len() {
                        bad("cone_maps_length", json!({"maps": maps.len(), "cones": aug.cones.len()}));
                    } else {
                        let mut row = 0;
                        for ((oi, tc), gc) in maps.iter().zip(&aug.cones) {
                            let d = cone_dim(gc);
                            match tc {
                                None => {
                                    if cone_dim(&p.cones[*oi]) != d {
                                        ok_layout = false;
                                    } else {
                                        za[row..row + d].copy_from_slice(&zfull[ranges[*oi].clone()]);
                                    }
                                }
                                Some((ti, ci)) => {
                                    let v = clique_of(*ti, *ci);
                                    if v.len() * (v.len() + 1) / 2 != d || trees[*ti].orig_index != *oi {
                                        ok_layout = false;
                                    } else if let Some((k, zm)) = &zmats[*oi] {
                                        let mut blk = vec![0.0; v.len() * v.len()];
                                        for (aa, &ia) in v.iter().enumerate() {
                                            for (bb, &ib) in v.iter().enumerate() {
                                                blk[aa * v.len() + bb] = zm[ia * k + ib];
                                                in_clique[*oi][tri_idx(ia, ib)] = true;
                                            }
                                        }
                                        za[row..row + d].copy_from_slice(&vc::mat_to_svec(v.len(), &blk));
                                    }
                                }
                            }
                            row += d;
                        }
                    }
                }
            }
        } else {
            // standard: [Zero(m), then per original cone either itself or its clique blocks in post order]
            let mut row = m;
            let mut gi = 1;
            if !matches!(aug.cones.first(), Some(ConeT::ZeroConeT(k)) if *k == m) {
                bad("standard_first_cone_not_zero_m", json!({}));
            }
            for (oi, c) in p.cones.iter().enumerate() {
                if let Some(ti) = trees.iter().position(|t| t.orig_index == oi) {
                    for ci in 0..trees[ti].n_cliques {
                        let v = clique_of(ti, ci);
                        let d = v.len() * (v.len() + 1) / 2;
                        if gi >= aug.cones.len() || cone_dim(&aug.cones[gi]) != d {
                            ok_layout = false;
                            break;
                        }
                        if let Some((k, zm)) = &zmats[oi] {
                            let mut blk = vec![0.0; v.len() * v.len()];
                            for (aa, &ia) in v.iter().enumerate() {
                                for (bb, &ib) in v.iter().enumerate() {
                                    blk[aa * v.len() + bb] = zm[ia * k + ib];
                                    in_clique[oi][tri_idx(ia, ib)] = true;
                                }
                            }
                            za[row..row + d].copy_from_slice(&vc::mat_to_svec(v.len(), &blk));
                        }
                        row += d;
                        gi += 1;
                    }
                } else {
                    let d = cone_dim(c);
                    if gi >= aug.cones.len() || cone_dim(&aug.cones[gi]) != d {
                        ok_layout = false;
                        break;
                    }
                    za[row..row + d].copy_from_slice(&zfull[ranges[oi].clone()]);
                    row += d;
                    gi += 1;
                }
            }
            // H: one unit entry per column
            match vcx.H() {
                None => bad("H_missing", json!({})),
                Some(h) => {
                    if h.m != m || h.n != m2 - m || (0..h.n).any(|j| h.colptr[j + 1] - h.colptr[j] != 1) || h.nzval.iter().any(|v| *v != 1.0) {
                        bad("H_structure", json!({"m": h.m, "n": h.n}));
                    }
                }
            }
        }
        if !ok_layout {
            bad("generated_cone_layout", json!({"generated": problem::cones_json(&aug.cones)}));
        } else if fail.borrow().is_none() {
            let xa = vec![0.0; n2];
            let sa = vec![0.0; m2];
            for complete in [false, true] {
                let mut st2 = st.clone();
                st2.chordal_decomposition_complete_dual = complete;
                let (_x, _s, zr) = vcx.reverse(&xa, &sa, &za, &aug.cones, &st2);
                if zr.len() != m {
                    bad("reversed_sizes", json!({"z": zr.len()}));
                    break;
                }
                for (oi, (c, r)) in p.cones.iter().zip(ranges.clone()).enumerate() {
                    let decomposed = trees.iter().any(|t| t.orig_index == oi);
                    for (t, i) in r.clone().enumerate() {
                        let inside = !decomposed || in_clique[oi][t];
                        if inside && (zr[i] - zfull[i]).abs() > 1e-12 * (1.0 + zfull[i].abs()) {
                            bad("dual_block_not_reproduced", json!({"cone": oi, "entry": t, "reversed": zr[i], "block_value": zfull[i], "complete_dual": complete}));
                        }
                    }
                    if complete && decomposed {
                        if let ConeT::PSDTriangleConeT(k) = c {
                            let zm = vc::svec_to_mat(*k, &zr[r.clone()]);
                            let (w, _) = refla::jacobi_eig_sym(*k, &zm);
                            if !(w[0] > -1e-10 * w[*k - 1].abs().max(1.0)) {
                                bad("completed_dual_not_psd", json!({"cone": oi, "eigenvalues": w}));
                            }
                        }
                    }
                }
            }
        }
    }
    if let Some((o, d)) = fail.into_inner() {
        ctx.violation(&o, &format!("{o}:{}", if st.chordal_decomposition_compact { "compact" } else { "standard" }), wl, case, json!({"input": inp(), "check": d}));
    }
    if case < 2 {
        ctx.sample(json!({"workload": wl, "cones": problem::cones_json(&p.cones), "pattern_families": sdp.families, "settings": settings_tag(&st), "augmented_n": n2, "augmented_m": m2}));
    }
}

/// (b) pairs of end-to-end solves with decomposition on / off
fn pair_case(ctx: &mut Ctx, wl: &str, case: u64, rng: &mut Rng) {
    let with_inf = rng.bool(0.3);
    let sdp = sparse_sdp(rng, with_inf, ctx.flavour == "miri");
    let p = &sdp.problem;
    let mut st_on = chordal_settings(rng);
    st_on.presolve_enable = rng.bool(0.7);
    let mut st_off = st_on.clone();
    st_off.chordal_decomposition_enable = false;
    let bound = clarabel::get_infinity();
    let r_on = problem::run(p, &st_on);
    let r_off = problem::run(p, &st_off);
    ctx.eval(1);
    let tag = settings_tag(&st_on);
    let inp = |extra: serde_json::Value| json!({"problem": p.to_json(), "settings": problem::settings_json(&st_on), "check": extra, "with_infinite_bounds": with_inf, "presolve": st_on.presolve_enable});
    let (on, off) = match (r_on, r_off) {
        (Ok(a), Ok(b)) => (a, b),
        (Err(msg), _) => {
            let site = msg.rsplit(" @ ").next().unwrap_or("").replace("/repo/", "");
            let kind = if with_inf && st_on.presolve_enable { "with_presolve_reduction" } else { "plain" };
            ctx.violation("decomposed_solve_panicked", &format!("decomposed_solve_panicked:{kind}:{site}"), wl, case, inp(json!({"panic": msg})));
            return;
        }
        (_, Err(msg)) => {
            ctx.inconclusive(&format!("reference solve panicked: {msg}"), wl, case);
            return;
        }
    };
    ctx.nontrivial_hash(p.hash() ^ case);
    ctx.bump(&format!("pair_{tag}"));
    ctx.bump(&format!("status_on_{}", status_name(on.status)));
    if with_inf && st_on.presolve_enable {
        ctx.bump("pairs_with_presolve_reduction");
    }
    let mut fails: Vec<(String, serde_json::Value)> = vec![];
    if on.x.len() != p.n() || on.s.len() != p.m() || on.z.len() != p.m() {
        fails.push(("lengths".into(), json!({"x": on.x.len(), "s": on.s.len(), "z": on.z.len()})));
    }
    let (vo, vf) = (verdict_class(on.status), verdict_class(off.status));
    if vo != '-' && vf != '-' && vo != vf {
        // a problem that is primal AND dual infeasible admits either verdict: accept a P/D pair only when both
        // returned certificates hold up against the original data by their definitions
        let mut both_certified = false;
        let mut cert_detail = json!(null);
        if (vo == 'P' && vf == 'D') || (vo == 'D' && vf == 'P') {
            let cert = |r: &problem::SolveResult, st: &DefaultSettings<f64>| -> (bool, serde_json::Value) {
                let pm = presolve_model(p, st, r, bound);
                let ev = kkt::evaluate(p, &r.x, &r.s, &r.z, &pm.keep, bound, &pm.ceff);
                if verdict_class(r.status) == 'P' {
                    (ev.bz < 0.0 && ev.z_margin >= -1e-8 && ev.atz_norm <= 1e-5 * (-ev.bz) + ev.slack_atz, json!({"kind": "primal", "bz": ev.bz, "z_margin": ev.z_margin, "Atz_norm": ev.atz_norm}))
                } else {
                    (ev.qx < 0.0 && ev.s_margin >= -1e-8 && ev.px_norm.max(ev.axs_norm) <= 1e-5 * (-ev.qx) + ev.slack_px + ev.slack_axs, json!({"kind": "dual", "qx": ev.qx, "s_margin": ev.s_margin, "Px_norm": ev.px_norm, "Axs_norm": ev.axs_norm}))
                }
            };
            let (a, da) = cert(&on, &st_on);
            let (b, db) = cert(&off, &st_off);
            both_certified = a && b;
            cert_detail = json!({"on": da, "off": db});
            if !b {
                // the reference run (decomposition off) itself returned an infeasibility verdict whose
                // certificate does not hold by definition (seen with literal 1e20 "bounds" and presolve off,
                // where both runs stop after one iteration on 1e20-sized iterates): the reference is no
                // oracle for this case; bogus certificates are C02's subject, not a decomposition defect
                ctx.inconclusive("reference (decomposition off) verdict is an uncertified infeasibility claim", wl, case);
                return;
            }
        }
        if both_certified {
            ctx.bump("primal_and_dual_infeasible_pairs_(either_verdict_valid)");
        } else {
            fails.push(("verdict_differs".into(), json!({"on": status_name(on.status), "off": status_name(off.status), "certificates": cert_detail})));
        }
    }
    // literal "infinite" right-hand sides that the solver keeps as data (presolve off): the documented residual
    // test is then relative to |b| = 1e20, every consistency constraint of the decomposition is "met" to 1e12,
    // and `Solved` says nothing about the point (seen: x ~ 3e4, |Ax+s-b| ~ 3e4, status Solved, while the
    // undecomposed run gives up).  Nothing about the decomposition can be read off such a pair.
    let literal_inf = with_inf && !st_on.presolve_enable;
    if literal_inf {
        ctx.bump("pairs_with_literal_1e20_data_(optimality_oracles_skipped)");
    }
    if on.status == SolverStatus::Solved && fails.is_empty() && !literal_inf {
        // size-dependent relaxation: every overlap entry adds one consistency constraint that the decomposed
        // solve meets to tol_feas only, and their violations add up in the mapped-back gap and residuals:
        // c(m) = 10 (#overlap entries + 1)
        let overlaps = (on.data_m as f64 - p.m() as f64).max(0.0);
        let relax = 10.0 * (overlaps + 1.0);
        let pm = presolve_model(p, &st_on, &on, bound);
        let ev = kkt::evaluate(p, &on.x, &on.s, &on.z, &pm.keep, bound, &pm.ceff);
        for (o, d) in kkt::judge_solved(&ev, st_on.tol_feas, st_on.tol_gap_abs, st_on.tol_gap_rel, relax) {
            if o == "z_not_in_Kstar" {
                // judged below: the completed dual is the result of a numerical completion of blocks that are
                // PSD only to solver tolerance, so membership is measured against the scale of the whole dual
                continue;
            }
            fails.push((format!("original_problem:{o}"), json!({"detail": d, "relaxation": relax})));
        }
        if st_on.chordal_decomposition_complete_dual {
            let zscale = on.z.iter().fold(1.0f64, |mx, v| mx.max(v.abs()));
            let kept: Vec<f64> = (0..p.m()).filter(|&i| pm.keep[i]).map(|i| on.z[i]).collect();
            for (ci, (c, r)) in pm.ceff.iter().zip(cone_ranges(&pm.ceff)).enumerate() {
                let (mg, _) = vc::margin(c, &kept[r], true);
                ctx.observe_max("neg_dual_margin_over_scale", -mg / zscale);
                if !(mg >= -1e-5 * (overlaps + 1.0).sqrt() * zscale) {
                    fails.push(("original_problem:z_not_in_Kstar".into(), json!({"cone_index": ci, "cone": vc::cone_name(c), "margin": mg, "dual_scale": zscale})));
                    break;
                }
            }
        }
        for i in 0..p.m() {
            if pm.drop[i] && !(on.s[i] == bound && on.z[i] == 0.0) {
                fails.push(("dropped_row_values".into(), json!({"row": i, "s": on.s[i], "z": on.z[i]})));
                break;
            }
        }
        if off.status == SolverStatus::Solved {
            let den = off.obj_val.abs().max(1.0);
            let tol = relax * (st_on.tol_gap_abs.max(st_on.tol_gap_rel * den)) * 10.0 + 1e-6 * den;
            if !((on.obj_val - off.obj_val).abs() <= tol) {
                fails.push(("objective_differs".into(), json!({"on": on.obj_val, "off": off.obj_val, "tol": tol})));
            }
            ctx.observe_max("objective_difference_rel", (on.obj_val - off.obj_val).abs() / den);
        }
        // reported objective vs recomputation (to solver tolerance for the dual, see C03)
        let den = ev.p_obj.abs().max(1.0);
        if !((on.obj_val - ev.p_obj).abs() <= 1e-9 * den + 8.0 * ev.slack_obj) {
            fails.push(("obj_val_vs_returned_x".into(), json!({"reported": on.obj_val, "recomputed": ev.p_obj})));
        }
    }
    for (o, d) in fails {
        ctx.violation(&o, &format!("{o}:{}", if st_on.chordal_decomposition_compact { "compact" } else { "standard" }), wl, case, json!({"input": inp(d), "result_on": on.full_json(), "result_off": off.summary_json()}));
    }
    if case < 2 {
        ctx.sample(json!({"workload": wl, "cones": problem::cones_json(&p.cones), "settings": tag, "status_on": status_name(on.status), "status_off": status_name(off.status), "obj_on": problem::fj(on.obj_val), "obj_off": problem::fj(off.obj_val), "internal_m": on.data_m}));
    }
}

pub fn run(ctx: &mut Ctx) {
    let wl = "synthetic";
    let total = if ctx.flavour == "miri" { ctx.count(6, 20) } else { ctx.count(800, 20000) };
    for case in ctx.cases(wl, total) {
        if ctx.out_of_budget() {
            continue;
        }
        ctx.begin(wl, case);
        let mut rng = Rng::for_case(ctx.seed, "C18/synthetic", case);
        let r = vkit::report::catch(std::panic::AssertUnwindSafe(|| synthetic_case(ctx, wl, case, &mut rng)));
        if let Err(msg) = r {
            let site = msg.rsplit(" @ ").next().unwrap_or("").replace("/repo/", "");
            ctx.violation("panic", &format!("panic:{site}"), wl, case, json!({"panic": msg}));
        }
    }
    let wl = "solve_pairs";
    let total = if ctx.flavour == "miri" { ctx.count(2, 6) } else { ctx.count(240, 4000) };
    for case in ctx.cases(wl, total) {
        if ctx.out_of_budget() {
            continue;
        }
        ctx.begin(wl, case);
        let mut rng = Rng::for_case(ctx.seed, "C18/solve_pairs", case);
        pair_case(ctx, wl, case, &mut rng);
    }
}

//! C20 — solver output is routed faithfully and says what the solver did.
use clarabel::io::ConfigurablePrintTarget;
use clarabel::solver::{DefaultSettings, DefaultSolver, IPSolver, SolverStatus};
use serde_json::{json, Value};
use std::io::{Read, Seek, SeekFrom, Write};
use std::sync::{Arc, Mutex};
use vkit::cones::{cone_dim, cone_name, ConeT};
use vkit::gen::{self, GenOpts};
use vkit::problem::{self, is_infeasible_status, status_name, Problem};
use vkit::report::catch;
use vkit::{Ctx, Rng};

/// a stream that takes at most `1` bytes per call (0 = unlimited): short writes are legal for any `Write`
/// (pipes, sockets, bounded writers), and the caller has to come back with the rest
struct SharedBuf(Arc<Mutex<Vec<u8>>>, usize);
impl Write for SharedBuf {
    fn write(&mut self, b: &[u8]) -> std::io::Result<usize> {
        let n = if self.1 == 0 { b.len() } else { b.len().min(self.1) };
        self.0.lock().unwrap().extend_from_slice(&b[..n]);
        Ok(n)
    }
    fn flush(&mut self) -> std::io::Result<()> {
        Ok(())
    }
}

/// the (problem, settings) of a case, regenerated identically by the stdout child process
pub fn case_input(seed: u64, case: u64) -> (Problem, DefaultSettings<f64>) {
    let mut rng = Rng::for_case(seed, "C20/cases", case);
    let mut o = GenOpts { kinds: gen::all_kinds(), ..Default::default() };
    o.nmax = *rng.choose(&[2, 5, 10]);
    o.mmax = *rng.choose(&[6, 15, 30]);
    o.psd_max = 4;
    if rng.bool(0.15) {
        // many cones of one kind (the header abbreviates lists of more than five dimensions)
        let k = *rng.choose(&["SOC", "PSD", "Zero", "GenPow", "SOC"]);
        o.kinds = vec![k, k, k, k, "NN"];
        o.max_cones = 14;
        o.mmax = 70;
        o.psd_max = 3;
    }
    let mut p = match rng.usize(0, 9) {
        0..=5 => gen::planted(&mut rng, &o).problem,
        6 | 7 => gen::primal_infeasible(&mut rng, &o).0,
        8 => gen::dual_infeasible(&mut rng, &o).0,
        _ => {
            let mut p = gen::planted(&mut rng, &o).problem;
            crate::c02::illcondition(&mut p, &mut rng, 4.0);
            p
        }
    };
    // infinite bounds so that the presolve line appears
    if rng.bool(0.25) {
        use vkit::cones::cone_ranges;
        for (c, r) in p.cones.clone().iter().zip(cone_ranges(&p.cones)) {
            if let ConeT::NonnegativeConeT(_) = c {
                for i in r {
                    if rng.bool(0.4) {
                        p.b[i] = 1e20;
                    }
                }
            } else if rng.bool(0.3) {
                // "infinite" entries outside nonnegative cones are capped, never removed: the presolve line must
                // not count them
                for i in r {
                    if rng.bool(0.3) {
                        p.b[i] = *rng.choose(&[1e20, 1e30]);
                    }
                }
            }
        }
    }
    let mut st = gen::random_settings(&mut rng, true);
    st.max_threads = 1;
    match rng.usize(0, 9) {
        0 | 1 => st.max_iter = rng.usize(0, 12) as u32,
        2 => {
            st.tol_gap_abs = 1e-14;
            st.tol_gap_rel = 1e-14;
            st.tol_feas = 1e-14;
            st.max_iter = *rng.choose(&[30, 60]);
        }
        3 => st.time_limit = *rng.choose(&[1e3, 7.5]),
        _ => {}
    }
    (p, st)
}

/// entry point of the child process: solve one case printing to stdout
pub fn child(seed: u64, case: u64, verbose: bool) {
    let (p, mut st) = case_input(seed, case);
    st.verbose = verbose;
    let mut solver = DefaultSolver::new(&p.P, &p.q, &p.A, &p.b, &p.cones, st);
    solver.print_to_stdout();
    solver.solve();
    let _ = std::io::stdout().flush();
}

fn mask_time(s: &str) -> String {
    s.lines().map(|l| if l.starts_with("solve time = ") { "solve time = <masked>" } else { l }).collect::<Vec<_>>().join("\n")
}

fn parse_num(tok: &str) -> Option<f64> {
    match tok {
        "NaN" | "+NaN" | "-NaN" => Some(f64::NAN),
        "inf" | "+inf" => Some(f64::INFINITY),
        "-inf" => Some(f64::NEG_INFINITY),
        _ => tok.parse::<f64>().ok(),
    }
}

/// value agrees with the printed one at print precision (mantissa digits `d`)
fn print_close(printed: f64, actual: f64, digits: i32) -> bool {
    if printed.is_nan() || actual.is_nan() {
        return printed.is_nan() && actual.is_nan();
    }
    if printed.is_infinite() || actual.is_infinite() {
        return printed == actual;
    }
    let tol = 0.51 * 10f64.powi(-digits) * 1.0001;
    (printed - actual).abs() <= tol * actual.abs().max(printed.abs()).max(1e-300) * 1.0 + 1e-300 || (printed - actual).abs() <= tol * 10f64.powf(actual.abs().max(1e-300).log10().floor())
}

struct Parsed {
    rows: Vec<(u32, Vec<f64>)>, // iteration, [pcost,dcost,gap,pres,dres,kt,mu,(step)]
    header: std::collections::BTreeMap<String, String>,
    status: Option<String>,
    presolve_removed: Option<usize>,
    cone_lines: Vec<(String, usize, Vec<String>)>,
    raw_settings: Vec<String>,
    banner_ok: bool,
}

fn parse_output(txt: &str) -> Result<Parsed, String> {
    let mut pz = Parsed { rows: vec![], header: Default::default(), status: None, presolve_removed: None, cone_lines: vec![], raw_settings: vec![], banner_ok: false };
    let mut in_table = false;
    let mut in_settings = false;
    pz.banner_ok = txt.contains("Clarabel.rs v") && txt.contains("(c) Paul Goulart");
    for line in txt.lines() {
        let t = line.trim();
        if t.starts_with("presolve: removed ") {
            pz.presolve_removed = t.trim_start_matches("presolve: removed ").split_whitespace().next().and_then(|x| x.parse().ok());
            continue;
        }
        if t.starts_with("iter ") && t.contains("pcost") {
            in_table = true;
            in_settings = false;
            continue;
        }
        if t.starts_with("-----") {
            continue;
        }
        if t.starts_with("Terminated with status = ") {
            pz.status = Some(t.trim_start_matches("Terminated with status = ").to_string());
            in_table = false;
            continue;
        }
        if t.starts_with("settings:") {
            in_settings = true;
            continue;
        }
        if in_table && !t.is_empty() && !t.starts_with("solve time") {
            let toks: Vec<&str> = t.split_whitespace().collect();
            let it: u32 = toks.first().and_then(|x| x.parse().ok()).ok_or_else(|| format!("bad table row: {line}"))?;
            let mut vals = vec![];
            for tk in &toks[1..] {
                if *tk == "------" {
                    continue;
                }
                vals.push(parse_num(tk).ok_or_else(|| format!("bad number '{tk}' in row: {line}"))?);
            }
            pz.rows.push((it, vals));
            continue;
        }
        if in_settings && !t.is_empty() {
            pz.raw_settings.push(t.to_string());
            continue;
        }
        if let Some((k, v)) = t.split_once('=') {
            let k = k.trim();
            if t.starts_with(':') {
                // cone line ":        Zero = 1,  numel = 3"
                let body = t.trim_start_matches(':').trim();
                let mut parts = body.splitn(2, '=');
                let name = parts.next().unwrap_or("").trim().to_string();
                let rest = parts.next().unwrap_or("");
                let count: usize = rest.split(',').next().and_then(|x| x.trim().parse().ok()).unwrap_or(usize::MAX);
                let numel = rest.split("numel =").nth(1).unwrap_or("").trim().trim_matches(|c| c == '(' || c == ')').split(',').map(|x| x.trim().to_string()).collect();
                pz.cone_lines.push((name, count, numel));
            } else {
                pz.header.insert(k.to_string(), v.trim().to_string());
            }
        }
    }
    Ok(pz)
}

fn tag_name(c: &ConeT) -> &'static str {
    match cone_name(c) {
        "Zero" => "Zero",
        "NN" => "Nonnegative",
        "SOC" => "SecondOrder",
        "Exp" => "Exponential",
        "Pow" => "Power",
        "GenPow" => "GenPower",
        _ => "PSDTriangle",
    }
}

fn run_with<F: FnOnce(&mut DefaultSolver<f64>)>(p: &Problem, st: &DefaultSettings<f64>, configure: F) -> Result<DefaultSolver<f64>, String> {
    let mut solver = problem::new_solver(p, st)?;
    configure(&mut solver);
    catch(std::panic::AssertUnwindSafe(|| solver.solve()))?;
    Ok(solver)
}

fn result_bits(s: &DefaultSolver<f64>) -> Vec<u64> {
    let so = &s.solution;
    let mut v: Vec<u64> = so.x.iter().chain(&so.s).chain(&so.z).map(|t| t.to_bits()).collect();
    v.push(so.obj_val.to_bits());
    v.push(so.iterations as u64);
    v.push(so.status as u64);
    v
}

fn stdout_of_child(ctx: &Ctx, case: u64, verbose: bool) -> Option<Vec<u8>> {
    let exe = std::env::current_exe().ok()?;
    let out = std::process::Command::new(exe)
        .args(["C20child", "--seed", &ctx.seed.to_string(), "--replay", &format!("{}:{}", if verbose { "verbose" } else { "quiet" }, case)])
        .stderr(std::process::Stdio::null())
        .output()
        .ok()?;
    if !out.status.success() {
        return None;
    }
    Some(out.stdout)
}

pub fn run(ctx: &mut Ctx) {
    let wl = "targets";
    let total = if ctx.flavour == "miri" { 0 } else { ctx.count(320, 4000) };
    for case in ctx.cases(wl, total) {
        if ctx.out_of_budget() {
            continue;
        }
        ctx.begin(wl, case);
        let (p, st0) = case_input(ctx.seed, case);
        ctx.nontrivial_hash(p.hash() ^ case);
        let mut fail: Option<(String, Value)> = None;
        let mut bad = |o: &str, d: Value| {
            if fail.is_none() {
                fail = Some((o.to_string(), d));
            }
        };
        // ---------------- verbose off: zero bytes on every target
        let mut quiet = st0.clone();
        quiet.verbose = false;
        {
            let r = run_with(&p, &quiet, |s| s.print_to_buffer());
            if let Ok(mut s) = r {
                match s.get_print_buffer() {
                    Ok(b) if b.is_empty() => {}
                    Ok(b) => bad("verbose_off_wrote_to_buffer", json!({"bytes": b.len(), "text": b})),
                    Err(e) => bad("buffer_not_configured_after_print_to_buffer", json!({"error": e.to_string()})),
                }
            }
            let sb = Arc::new(Mutex::new(Vec::new()));
            let sb2 = sb.clone();
            let _ = run_with(&p, &quiet, move |s| s.print_to_stream(Box::new(SharedBuf(sb2, 0))));
            if !sb.lock().unwrap().is_empty() {
                bad("verbose_off_wrote_to_stream", json!({"bytes": sb.lock().unwrap().len()}));
            }
            if case % 8 == 0 {
                if let Some(out) = stdout_of_child(ctx, case, false) {
                    ctx.bump("stdout_children_quiet");
                    if !out.is_empty() {
                        bad("verbose_off_wrote_to_stdout", json!({"bytes": out.len(), "text": String::from_utf8_lossy(&out)}));
                    }
                }
            }
        }
        // ---------------- verbose on: identical bytes on buffer, stream, file (and stdout)
        let mut loud = st0.clone();
        loud.verbose = true;
        // one case in three: the solver object that prints into the buffer is not new - it has been solved once
        // before, silently, with an iteration budget of one or two (ending MaxIterations with figures of its own).
        // What it then prints, and what it reports, must be what a new solver prints and reports
        let aged = case % 3 == 1;
        let buf_solver = run_with(&p, &loud, |s| {
            if aged {
                let keep = (s.settings.max_iter, s.settings.verbose);
                s.settings.verbose = false;
                s.settings.max_iter = 1 + (case % 2) as u32;
                s.print_to_sink();
                let _ = catch(std::panic::AssertUnwindSafe(|| s.solve()));
                s.settings.max_iter = keep.0;
                s.settings.verbose = keep.1;
            }
            s.print_to_buffer()
        });
        if aged {
            ctx.bump("buffer_solver_had_been_solved_before");
        }
        let mut buf_solver = match buf_solver {
            Ok(s) => s,
            Err(msg) => {
                ctx.inconclusive(&format!("panic: {msg}"), wl, case);
                continue;
            }
        };
        let buf_txt = buf_solver.get_print_buffer().unwrap_or_default();
        ctx.eval(1);
        // selecting the buffer again starts a new capture: a second solve on the same solver must leave exactly one
        // solve's output in it (and nothing at all when verbose has been switched off in between)
        if case % 3 == 0 {
            buf_solver.print_to_buffer();
            let quiet_again = case % 6 == 0;
            if quiet_again {
                buf_solver.settings.verbose = false;
            }
            if catch(std::panic::AssertUnwindSafe(|| buf_solver.solve())).is_ok() {
                let second = buf_solver.get_print_buffer().unwrap_or_default();
                ctx.eval(1);
                ctx.bump("buffer_reselected_before_a_second_solve");
                if quiet_again {
                    if !second.is_empty() {
                        ctx.violation("verbose_off_wrote_to_buffer", "verbose_off_wrote_to_buffer:after_reselect", wl, case, json!({"problem": p.to_json(), "settings": problem::settings_json(&loud), "bytes": second.len(), "head": second.chars().take(200).collect::<String>()}));
                    }
                } else if mask_time(&second) != mask_time(&buf_txt) {
                    ctx.violation("buffer_after_reselect_differs", "buffer_after_reselect_differs", wl, case, json!({"problem": p.to_json(), "settings": problem::settings_json(&loud), "first_len": buf_txt.len(), "second_len": second.len()}));
                }
            }
            buf_solver.settings.verbose = true;
        }
        ctx.bump(&format!("status_{}", status_name(buf_solver.solution.status)));
        let sb = Arc::new(Mutex::new(Vec::new()));
        let sb2 = sb.clone();
        // every other case the stream accepts only a few bytes per call
        let chunk = if case % 2 == 1 { [1usize, 7, 32, 64][(case as usize / 2) % 4] } else { 0 };
        let stream_solver = run_with(&p, &loud, move |s| s.print_to_stream(Box::new(SharedBuf(sb2, chunk))));
        let stream_txt = String::from_utf8_lossy(&sb.lock().unwrap()).to_string();
        let mut f = tempfile_rw();
        let f2 = f.try_clone().expect("clone");
        let file_solver = run_with(&p, &loud, move |s| s.print_to_file(f2));
        let mut file_txt = String::new();
        let _ = f.seek(SeekFrom::Start(0));
        let _ = f.read_to_string(&mut file_txt);
        let sink_solver = run_with(&p, &loud, |s| s.print_to_sink());
        let ref_masked = mask_time(&buf_txt);
        for (name, txt) in [("stream", &stream_txt), ("file", &file_txt)] {
            ctx.eval(1);
            if mask_time(txt) != ref_masked {
                bad("targets_differ", json!({"target": name, "buffer": buf_txt, "other": txt}));
            }
        }
        if case % 8 == 0 {
            if let Some(out) = stdout_of_child(ctx, case, true) {
                ctx.bump("stdout_children_verbose");
                let t = String::from_utf8_lossy(&out).to_string();
                if mask_time(&t) != ref_masked {
                    bad("targets_differ", json!({"target": "stdout", "buffer": buf_txt, "other": t}));
                }
            }
        }
        // results do not depend on the target; sink has no readable buffer
        for (name, s) in [("stream", &stream_solver), ("file", &file_solver), ("sink", &sink_solver)] {
            if let Ok(s) = s {
                if result_bits(s) != result_bits(&buf_solver) {
                    bad("result_depends_on_print_target", json!({"target": name}));
                }
            }
        }
        if let Ok(mut s) = sink_solver {
            if s.get_print_buffer().is_ok() {
                bad("sink_reports_a_buffer", json!({}));
            }
        }
        // ---------------- what the text says
        match parse_output(&buf_txt) {
            Err(e) => bad("output_unparseable", json!({"error": e, "text": buf_txt})),
            Ok(pz) => {
                let s = &buf_solver;
                let sol = &s.solution;
                if !pz.banner_ok {
                    bad("banner_missing", json!({}));
                }
                // iteration column
                let its: Vec<u32> = pz.rows.iter().map(|r| r.0).collect();
                if its.first() != Some(&0) || its.windows(2).any(|w| w[1] < w[0] || w[1] > w[0] + 1) || its.last() != Some(&sol.iterations) {
                    bad("iteration_column", json!({"column": its, "reported_iterations": sol.iterations}));
                }
                // footer
                if pz.status.as_deref() != Some(status_name(sol.status)) {
                    bad("footer_status", json!({"footer": pz.status, "solution_status": status_name(sol.status)}));
                }
                // last row vs info / solution
                if let Some((_, vals)) = pz.rows.last() {
                    let info = &s.info;
                    let gap = f64::min(info.gap_abs, info.gap_rel);
                    let want = [info.cost_primal, info.cost_dual, gap, info.res_primal, info.res_dual, info.ktratio, info.μ];
                    let names = ["pcost", "dcost", "gap", "pres", "dres", "k/t", "mu"];
                    let digits = [4, 4, 2, 2, 2, 2, 2];
                    if vals.len() < 7 {
                        bad("last_row_columns", json!({"row": vals}));
                    } else {
                        for k in 0..7 {
                            if !print_close(vals[k], want[k], digits[k]) {
                                bad("last_row_vs_info", json!({"column": names[k], "printed": problem::fj(vals[k]), "info": problem::fj(want[k]), "status": status_name(sol.status), "rows": pz.rows.len()}));
                                break;
                            }
                        }
                        // an infeasible end reports no objective at all (NaN), whatever an earlier solve on the
                        // same object left behind
                        if is_infeasible_status(sol.status) && !(sol.obj_val.is_nan() && sol.obj_val_dual.is_nan()) {
                            bad("infeasible_end_reports_an_objective", json!({"obj_val": problem::fj(sol.obj_val), "obj_val_dual": problem::fj(sol.obj_val_dual), "printed_pcost": problem::fj(vals[0]), "status": status_name(sol.status), "solver_had_been_solved_before": aged}));
                        }
                        if !is_infeasible_status(sol.status) && !(print_close(vals[0], sol.obj_val, 4) && print_close(vals[1], sol.obj_val_dual, 4) && print_close(vals[3], sol.r_prim, 2) && print_close(vals[4], sol.r_dual, 2)) {
                            bad("last_row_vs_solution", json!({"printed": vals.iter().map(|v| problem::fj(*v)).collect::<Vec<_>>(), "obj_val": problem::fj(sol.obj_val), "obj_val_dual": problem::fj(sol.obj_val_dual), "r_prim": problem::fj(sol.r_prim), "r_dual": problem::fj(sol.r_dual), "status": status_name(sol.status)}));
                        }
                    }
                } else {
                    bad("no_table_rows", json!({}));
                }
                // header: true internal dimensions
                let d = &s.data;
                let hv = |k: &str| pz.header.get(k).and_then(|v| v.parse::<usize>().ok());
                if hv("variables") != Some(d.n) || hv("constraints") != Some(d.m) || hv("nnz(P)") != Some(d.P.nnz()) || hv("nnz(A)") != Some(d.A.nnz()) || hv("cones (total)") != Some(d.cones.len()) {
                    bad("header_dimensions", json!({"header": pz.header, "n": d.n, "m": d.m, "nnzP": d.P.nnz(), "nnzA": d.A.nnz(), "cones": d.cones.len()}));
                }
                let removed = p.m() - d.m;
                #[cfg(feature = "sdp")]
                let chordal = st0.chordal_decomposition_enable;
                #[cfg(not(feature = "sdp"))]
                let chordal = false;
                if !chordal && pz.presolve_removed.unwrap_or(0) != removed {
                    bad("presolve_line", json!({"printed": pz.presolve_removed, "actual_removed": removed}));
                }
                // cone lines = recount of the internal cone list
                let mut kinds: Vec<&'static str> = vec![];
                for c in &d.cones {
                    if !kinds.contains(&tag_name(c)) {
                        kinds.push(tag_name(c));
                    }
                }
                for k in &kinds {
                    let dims: Vec<usize> = d.cones.iter().filter(|c| tag_name(c) == *k).map(cone_dim).collect();
                    match pz.cone_lines.iter().find(|l| l.0 == *k) {
                        None => bad("cone_line_missing", json!({"kind": k, "lines": pz.cone_lines.iter().map(|l| l.0.clone()).collect::<Vec<_>>()})),
                        Some((_, cnt, numel)) => {
                            let first_ok = numel.first().and_then(|x| x.parse::<usize>().ok()) == dims.first().copied();
                            let last_ok = numel.last().and_then(|x| x.parse::<usize>().ok()) == dims.last().copied();
                            // more than five: the first four, an ellipsis, the last one
                            let long_ok = dims.len() <= 5
                                || (numel.len() == 6 && numel[4] == "..." && (0..4).all(|t| numel[t].parse::<usize>().ok() == Some(dims[t])));
                            if dims.len() > 5 {
                                ctx.bump("abbreviated_cone_lists_checked");
                            }
                            if *cnt != dims.len() || !first_ok || !last_ok || !long_ok || (dims.len() <= 5 && numel.len() != dims.len()) {
                                bad("cone_line_wrong", json!({"kind": k, "printed_count": cnt, "printed_numel": numel, "actual": dims}));
                            }
                        }
                    }
                }
                if pz.cone_lines.len() != kinds.len() {
                    bad("cone_line_extra", json!({"printed": pz.cone_lines.iter().map(|l| l.0.clone()).collect::<Vec<_>>(), "kinds": kinds}));
                }
                // settings lines
                let sl = pz.raw_settings.join("\n");
                let onoff = |b: bool| if b { "on" } else { "false" };
                let tl = if loud.time_limit.is_infinite() { "Inf".to_string() } else { format!("{:?}", loud.time_limit) };
                let expect = [
                    format!("direct / {}", s.info.linsolver.name),
                    format!("max iter = {}, time limit = {},  max step = {:.3}", loud.max_iter, tl, loud.max_step_fraction),
                    format!("tol_feas = {:.1e}, tol_gap_abs = {:.1e}, tol_gap_rel = {:.1e}", loud.tol_feas, loud.tol_gap_abs, loud.tol_gap_rel),
                    format!("static reg : {}, ", onoff(loud.static_regularization_enable)),
                    format!("dynamic reg: {}, ", onoff(loud.dynamic_regularization_enable)),
                    format!("iter refine: {}, ", onoff(loud.iterative_refinement_enable)),
                    format!("max iter = {}, stop ratio = {:.1}", loud.iterative_refinement_max_iter, loud.iterative_refinement_stop_ratio),
                    format!("equilibrate: {}, min_scale = {:.1e}, max_scale = {:.1e}", onoff(loud.equilibrate_enable), loud.equilibrate_min_scaling, loud.equilibrate_max_scaling),
                    format!("max iter = {}", loud.equilibrate_max_iter),
                ];
                for e in expect.iter() {
                    if !sl.contains(e.as_str()) {
                        bad("settings_line", json!({"expected_fragment": e, "printed": pz.raw_settings}));
                        break;
                    }
                }
                if s.info.linsolver.threads == 1 && !sl.contains("(1 thread)") {
                    bad("settings_line", json!({"expected_fragment": "(1 thread)", "printed": pz.raw_settings}));
                }
                if sol.status == SolverStatus::InsufficientProgress || sol.status == SolverStatus::AlmostSolved {
                    ctx.bump("outputs_of_rollback_candidate_statuses");
                }
            }
        }
        if let Some((o, d)) = fail {
            ctx.violation(&o, &o, wl, case, json!({"problem": p.to_json(), "settings": problem::settings_json(&st0), "check": d, "status": status_name(buf_solver.solution.status), "iterations": buf_solver.solution.iterations, "output": buf_txt}));
        }
        if case < 1 {
            ctx.sample(json!({"workload": wl, "status": status_name(buf_solver.solution.status), "output_bytes": buf_txt.len(), "output_head": buf_txt.lines().take(24).collect::<Vec<_>>()}));
        }
    }
}

fn tempfile_rw() -> std::fs::File {
    let dir = std::env::temp_dir();
    let path = dir.join(format!("vcheck-c20-{}-{}.txt", std::process::id(), std::time::SystemTime::now().duration_since(std::time::UNIX_EPOCH).map(|d| d.as_nanos()).unwrap_or(0)));
    let f = std::fs::OpenOptions::new().read(true).write(true).create(true).truncate(true).open(&path).expect("tmp file");
    let _ = std::fs::remove_file(&path);
    f
}

use vkit::Ctx;
pub fn run(_ctx: &mut Ctx) {}

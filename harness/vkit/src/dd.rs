//! Double-double arithmetic (≈106 bits) for oracle-side accumulation, so that
//! the oracle's own rounding is negligible next to the f64 quantities it judges.

use std::ops::{Add, Div, Mul, Neg, Sub};

#[derive(Clone, Copy, Debug, PartialEq)]
pub struct DD {
    pub hi: f64,
    pub lo: f64,
}

#[inline]
fn two_sum(a: f64, b: f64) -> (f64, f64) {
    let s = a + b;
    let bb = s - a;
    let e = (a - (s - bb)) + (b - bb);
    (s, e)
}
#[inline]
fn quick_two_sum(a: f64, b: f64) -> (f64, f64) {
    let s = a + b;
    let e = b - (s - a);
    (s, e)
}
#[inline]
fn two_prod(a: f64, b: f64) -> (f64, f64) {
    let p = a * b;
    let e = a.mul_add(b, -p);
    (p, e)
}

impl DD {
    pub const ZERO: DD = DD { hi: 0.0, lo: 0.0 };
    pub const ONE: DD = DD { hi: 1.0, lo: 0.0 };
    pub const LN2: DD = DD { hi: 0.6931471805599453, lo: 2.3190468138462996e-17 };

    #[inline]
    pub fn new(x: f64) -> DD {
        DD { hi: x, lo: 0.0 }
    }
    #[inline]
    pub fn f(self) -> f64 {
        self.hi + self.lo
    }
    pub fn abs(self) -> DD {
        if self.hi < 0.0 || (self.hi == 0.0 && self.lo < 0.0) {
            -self
        } else {
            self
        }
    }
    pub fn is_finite(self) -> bool {
        self.hi.is_finite() && self.lo.is_finite()
    }
    pub fn sqrt(self) -> DD {
        if self.hi <= 0.0 {
            if self.hi == 0.0 {
                return DD::ZERO;
            }
            return DD::new(f64::NAN);
        }
        let x = 1.0 / self.hi.sqrt();
        let ax = self.hi * x;
        let axd = DD::new(ax);
        let diff = (self - axd * axd).hi;
        let (s, e) = quick_two_sum(ax, diff * x * 0.5);
        DD { hi: s, lo: e }
    }
    pub fn mul_pow2(self, p: f64) -> DD {
        DD { hi: self.hi * p, lo: self.lo * p }
    }
    pub fn exp(self) -> DD {
        if !self.hi.is_finite() {
            return DD::new(self.hi.exp());
        }
        if self.hi > 709.0 {
            return DD::new(f64::INFINITY);
        }
        if self.hi < -745.0 {
            return DD::ZERO;
        }
        // x = k ln2 + r, |r| <= ln2/2 ; then r/2^9, Taylor, square 9 times
        let k = (self.hi / DD::LN2.hi).round();
        let r = self - DD::LN2 * DD::new(k);
        let r = r.mul_pow2(1.0 / 512.0);
        // Taylor series of exp(r)-1
        let mut term = r;
        let mut sum = r;
        for i in 2..=14 {
            term = term * r / DD::new(i as f64);
            sum = sum + term;
            if term.hi.abs() < 1e-36 * sum.hi.abs().max(1e-300) {
                break;
            }
        }
        // (1+s)^2 - 1 = 2s + s^2, nine times
        let mut s = sum;
        for _ in 0..9 {
            s = s.mul_pow2(2.0) + s * s;
        }
        let e = s + DD::ONE;
        // scale by 2^k
        // exact powers of two built from their bit patterns (f64::powi is not guaranteed exact,
        // and interpreters such as Miri deliberately perturb it)
        let kk = k as i32;
        let pow2 = |e: i32| f64::from_bits(((e + 1023) as u64) << 52);
        let (k1, k2) = (kk / 2, kk - kk / 2);
        e.mul_pow2(pow2(k1)).mul_pow2(pow2(k2))
    }
    pub fn ln(self) -> DD {
        if self.hi <= 0.0 {
            if self.hi == 0.0 {
                return DD::new(f64::NEG_INFINITY);
            }
            return DD::new(f64::NAN);
        }
        if !self.hi.is_finite() {
            return DD::new(self.hi);
        }
        // Newton: y <- y + x*exp(-y) - 1
        let mut y = DD::new(self.hi.ln());
        for _ in 0..3 {
            y = y + self * (-y).exp() - DD::ONE;
        }
        y
    }
    pub fn powf(self, p: DD) -> DD {
        if self.hi == 0.0 {
            return if p.hi == 0.0 { DD::ONE } else { DD::ZERO };
        }
        (p * self.ln()).exp()
    }
    pub fn powi(self, n: i32) -> DD {
        let mut r = DD::ONE;
        let mut b = self;
        let mut e = n.unsigned_abs();
        while e > 0 {
            if e & 1 == 1 {
                r = r * b;
            }
            b = b * b;
            e >>= 1;
        }
        if n < 0 {
            DD::ONE / r
        } else {
            r
        }
    }
    pub fn lt(self, o: DD) -> bool {
        self.hi < o.hi || (self.hi == o.hi && self.lo < o.lo)
    }
    pub fn gt(self, o: DD) -> bool {
        o.lt(self)
    }
    pub fn max(self, o: DD) -> DD {
        if self.lt(o) {
            o
        } else {
            self
        }
    }
    pub fn min(self, o: DD) -> DD {
        if o.lt(self) {
            o
        } else {
            self
        }
    }
}

impl From<f64> for DD {
    fn from(x: f64) -> DD {
        DD::new(x)
    }
}

impl Neg for DD {
    type Output = DD;
    #[inline]
    fn neg(self) -> DD {
        DD { hi: -self.hi, lo: -self.lo }
    }
}
impl Add for DD {
    type Output = DD;
    #[inline]
    fn add(self, b: DD) -> DD {
        let (s1, s2) = two_sum(self.hi, b.hi);
        let (t1, t2) = two_sum(self.lo, b.lo);
        let s2 = s2 + t1;
        let (s1, s2) = quick_two_sum(s1, s2);
        let s2 = s2 + t2;
        let (hi, lo) = quick_two_sum(s1, s2);
        DD { hi, lo }
    }
}
impl Sub for DD {
    type Output = DD;
    #[inline]
    fn sub(self, b: DD) -> DD {
        self + (-b)
    }
}
impl Mul for DD {
    type Output = DD;
    #[inline]
    fn mul(self, b: DD) -> DD {
        let (p1, p2) = two_prod(self.hi, b.hi);
        let p2 = p2 + (self.hi * b.lo + self.lo * b.hi);
        let (hi, lo) = quick_two_sum(p1, p2);
        DD { hi, lo }
    }
}
impl Div for DD {
    type Output = DD;
    fn div(self, b: DD) -> DD {
        let q1 = self.hi / b.hi;
        if !q1.is_finite() {
            return DD::new(q1);
        }
        let r = self - b * DD::new(q1);
        let q2 = r.hi / b.hi;
        let r = r - b * DD::new(q2);
        let q3 = r.hi / b.hi;
        let (q1, q2) = quick_two_sum(q1, q2);
        DD { hi: q1, lo: q2 } + DD::new(q3)
    }
}
impl Add<f64> for DD {
    type Output = DD;
    fn add(self, b: f64) -> DD {
        self + DD::new(b)
    }
}
impl Sub<f64> for DD {
    type Output = DD;
    fn sub(self, b: f64) -> DD {
        self - DD::new(b)
    }
}
impl Mul<f64> for DD {
    type Output = DD;
    fn mul(self, b: f64) -> DD {
        self * DD::new(b)
    }
}
impl Div<f64> for DD {
    type Output = DD;
    fn div(self, b: f64) -> DD {
        self / DD::new(b)
    }
}

/// Σ a_i b_i in double-double
pub fn dot(a: &[f64], b: &[f64]) -> DD {
    assert_eq!(a.len(), b.len());
    let mut s = DD::ZERO;
    for (x, y) in a.iter().zip(b) {
        let (p, e) = two_prod(*x, *y);
        s = s + DD { hi: p, lo: e };
    }
    s
}
pub fn sum(a: &[f64]) -> DD {
    let mut s = DD::ZERO;
    for x in a {
        s = s + DD::new(*x);
    }
    s
}
/// 2-norm of a vector of DD
pub fn norm2(v: &[DD]) -> DD {
    let mut s = DD::ZERO;
    for x in v {
        s = s + *x * *x;
    }
    s.sqrt()
}
pub fn norm2_f(v: &[f64]) -> DD {
    dot(v, v).sqrt()
}
pub fn norm_inf_f(v: &[f64]) -> f64 {
    v.iter().fold(0.0f64, |m, x| m.max(x.abs()))
}

#[cfg(test)]
mod tests {
    use super::*;
    #[test]
    fn basics() {
        let a = DD::new(1.0) / DD::new(3.0);
        let b = a * DD::new(3.0);
        assert!((b - DD::ONE).abs().hi < 1e-31);
        let s = DD::new(2.0).sqrt();
        assert!((s * s - DD::new(2.0)).abs().hi < 1e-31);
        for &x in &[1e-5, 0.3, 1.0, 2.5, 17.0, 300.0, -4.2, -100.0] {
            let e = DD::new(x).exp();
            assert!((e.hi - x.exp()).abs() <= 2e-16 * x.exp(), "exp {x}");
            let back = e.ln();
            assert!((back - DD::new(x)).abs().hi < 1e-28 * x.abs().max(1.0), "ln exp {x} {:?}", back);
        }
        // exp(a+b) = exp(a)exp(b)
        let (p, q) = (DD::new(0.7), DD::new(1.9));
        let d = (p + q).exp() - p.exp() * q.exp();
        assert!(d.abs().hi < 1e-29);
        let pw = DD::new(3.0).powf(DD::new(0.5));
        assert!((pw * pw - DD::new(3.0)).abs().hi < 1e-29);
    }
}

#!/bin/bash
# usage: try_seed_iso.sh <seed-id> [checks...]   (env: ISO=/tmp/iso, VERIF_FLAVOURS default mon, VERIF_SEED default 1)
# Like try_seed.sh, but never touches /repo's working tree: the patch is applied in a scratch worktree of /repo's
# HEAD and the checks run from a scratch copy of /verif whose harness points at that worktree.  Safe to use while a
# long ./check run is going on in /verif.
sid=$1; shift
checks=${@:-$(echo $sid | cut -c1-3)}
[ "$sid" = "none" ] && [ $# -eq 0 ] && { echo "usage: try_seed_iso.sh none <checks>"; exit 2; }
ISO=${ISO:-/tmp/iso}
mkdir -p $ISO
if [ ! -d $ISO/repo ]; then git -C /repo worktree add -q --detach $ISO/repo HEAD || exit 2; fi
git -C $ISO/repo checkout -q --detach $(git -C /repo rev-parse HEAD) 2>/dev/null
git -C $ISO/repo checkout -q -- . ; git -C $ISO/repo clean -fdq -- src tests
# seed id "none": the unchanged tree (for checking silence without disturbing a run in /verif)
if [ "$sid" != "none" ]; then git -C $ISO/repo apply /verif/seeded/$sid/patch.diff || { echo "$sid: PATCH DOES NOT APPLY"; exit 2; }; fi
rsync -a --delete --exclude target --exclude replays --exclude .git --exclude evidence /verif/ $ISO/verif/
mkdir -p $ISO/verif/evidence
sed -i "s#path = \"/repo\"#path = \"$ISO/repo\"#" $ISO/verif/harness/vcheck/Cargo.toml $ISO/verif/harness/vkit/Cargo.toml
sed -i "s#/verif/target#$ISO/verif/target#" $ISO/verif/harness/.cargo/config.toml
export VERIF_FLAVOURS=${VERIF_FLAVOURS:-mon}
for c in $checks; do
  out=$(cd $ISO/verif && VERIF_SEED=${VERIF_SEED:-1} ./check $c ${TIER:-quick} 2>&1); rc=$?
  echo "seed=$sid check=$c rc=$rc violations_printed=$(echo "$out" | grep -c '^VIOLATION') :: $(echo "$out" | tail -1) :: $(echo "$out" | grep -oE 'sig=[^ ]+' | sed 's/sig=//' | sort | uniq -c | tr '\n' ';')"
done
git -C $ISO/repo checkout -q -- .

#!/usr/bin/env python3
"""prints the markdown table rows of the seeded changes with the given suffix ('' / b / c / d)"""
import json, glob, os, sys
suf = sys.argv[1] if len(sys.argv) > 1 else ""
def cut(t, n):
    return t.replace('|', '/').replace('\n', ' ')[:n]
for d in sorted(glob.glob(f'/verif/seeded/C??{suf}')):
    k = os.path.basename(d)
    m = json.load(open(d + '/meta.json'))
    print(f"| {k} | {cut(m['summary'], 230)} | {cut(m['needs'], 170)} | {', '.join(m.get('caught_by', ['?']))} | `{', '.join(m.get('signatures', ['?'])[:3])}` |")

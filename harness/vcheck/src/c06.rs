//! C06 — well-posed problems are solved, in few iterations (statistical monitor over family G).
use clarabel::solver::SolverStatus;
use serde_json::json;
use vkit::gen::{self, GenOpts};
use vkit::problem::{self, status_name};
use vkit::{Ctx, Rng};

pub fn family_g(rng: &mut Rng) -> gen::Planted {
    family_g_tagged(rng).0
}

pub fn family_g_tagged(rng: &mut Rng) -> (gen::Planted, String) {
    let mut o = GenOpts { kinds: gen::all_kinds(), ..Default::default() };
    o.nmax = *rng.choose(&[5, 15, 30, 60]);
    o.mmax = *rng.choose(&[10, 30, 80, 150]);
    o.psd_max = 6;
    // entry magnitudes <= 1e3
    let (lo, hi) = *rng.choose(&[(-1.0, 1.0), (-1.0, 1.0), (-2.0, 2.0), (0.0, 3.0), (-3.0, 0.0)]);
    o.mag_lo = lo;
    o.mag_hi = hi;
    let tag = format!("mag[{lo},{hi}]_n{}_m{}", o.nmax, o.mmax);
    (gen::planted_wellposed(rng, &o), tag)
}

pub fn run(ctx: &mut Ctx) {
    let wl = "family_G";
    let total = ctx.count(480, 6400);
    for case in ctx.cases(wl, total) {
        if ctx.out_of_budget() {
            continue;
        }
        ctx.begin(wl, case);
        let mut rng = Rng::for_case(ctx.seed, "C06/family_G", case);
        let (pl, tag) = family_g_tagged(&mut rng);
        if std::env::var("VERIF_C06_DEBUG").is_ok() {
            ctx.bump(&format!("dbgN_{tag}"));
        }
        let st = gen::default_settings();
        let res = match problem::run(&pl.problem, &st) {
            Ok(r) => r,
            Err(msg) => {
                ctx.bump("outcome_panic");
                ctx.inconclusive(&format!("panic: {msg}"), wl, case);
                continue;
            }
        };
        ctx.eval(1);
        ctx.nontrivial_hash(pl.problem.hash() ^ case);
        ctx.bump("N");
        ctx.bump(&format!("status_{}", status_name(res.status)));
        // strata: one per cone kind present, plus a few conjunctions of structural features (a regression confined to
        // "linear objective AND a sparse-expanded cone" is invisible in every single-feature stratum)
        let mut kinds: Vec<String> = pl.problem.cone_kinds().iter().map(|k| k.to_string()).collect();
        {
            use vkit::cones::ConeT;
            let lin = pl.problem.P.nnz() == 0;
            let sparse = pl.problem.cones.iter().any(|c| matches!(c, ConeT::SecondOrderConeT(d) if *d > 4) || matches!(c, ConeT::GenPowerConeT(_, _)));
            let big = tag.starts_with("mag[0,3]") || tag.starts_with("mag[-2,2]");
            if lin {
                kinds.push("linobj".into());
            }
            if sparse {
                kinds.push("sparsecone".into());
            }
            if lin && sparse {
                kinds.push("linobj+sparsecone".into());
            }
            if lin && sparse && big {
                kinds.push("linobj+sparsecone+bigdata".into());
            }
            if !lin && sparse {
                kinds.push("quadobj+sparsecone".into());
            }
            // problems that take the KKT-based (symmetric) initialisation, and those among them that mix
            // equality rows with proper cones
            let symmetric = !pl.problem.cones.iter().any(|c| matches!(c, ConeT::ExponentialConeT() | ConeT::PowerConeT(_) | ConeT::GenPowerConeT(_, _)));
            let zero = pl.problem.cones.iter().any(|c| matches!(c, ConeT::ZeroConeT(k) if *k > 0));
            let proper = pl.problem.cones.iter().any(|c| !matches!(c, ConeT::ZeroConeT(_)) && vkit::cones::cone_dim(c) > 0);
            if symmetric {
                kinds.push("symmetric_only".into());
            }
            if symmetric && zero && proper {
                kinds.push("symmetric_only+equalities".into());
            }
        }
        let it = res.iterations as u64;
        if res.status == SolverStatus::Solved {
            ctx.bump("solved");
            ctx.bump_n("iters_sum", it);
            ctx.bump(&format!("iters_hist_{:03}", it.min(199)));
            for k in &kinds {
                ctx.bump(&format!("stratum_{k}_solved"));
                ctx.bump_n(&format!("stratum_{k}_iters_sum"), it);
                ctx.bump(&format!("stratum_{k}_hist_{:03}", it.min(199)));
            }
        } else {
            ctx.bump("not_solved");
            if std::env::var("VERIF_C06_DEBUG").is_ok() {
                ctx.bump(&format!("dbgF_{tag}"));
            }
            for k in &kinds {
                ctx.bump(&format!("stratum_{k}_not_solved"));
            }
            // keep the instance for the record (the statistical verdict is made by the driver)
            if ctx.samples.len() < vkit::report::MAX_SAMPLES {
                ctx.sample(json!({"not_solved_case": case, "status": status_name(res.status), "iterations": res.iterations, "n": pl.problem.n(), "m": pl.problem.m(), "cones": problem::cones_json(&pl.problem.cones)}));
            }
        }
        for k in &kinds {
            ctx.bump(&format!("stratum_{k}_N"));
        }
    }
}

//! C07 — iterates stay strictly interior; the trajectory does not depend on the budget.
use crate::common::*;
use clarabel::solver::SolverStatus;
use clarabel::verif::IterEvent;
use serde_json::json;
use vkit::cones::{cone_dim, cone_ranges, margin, ConeT};
use vkit::dense::Dense;
use vkit::gen::{self, GenOpts};
use vkit::problem::{self, is_infeasible_status, status_name};
use vkit::{Ctx, Rng};

static NOT_JUDGED: std::sync::atomic::AtomicU64 = std::sync::atomic::AtomicU64::new(0);

fn interior_violation(cones: &[ConeT], e: &IterEvent, prev: Option<&IterEvent>) -> Option<serde_json::Value> {
    if !(e.τ > 0.0) || !(e.κ > 0.0) {
        return Some(json!({"what": "tau/kappa not positive", "tau": e.τ, "kappa": e.κ, "iteration": e.iterations}));
    }
    for (ci, (c, r)) in cones.iter().zip(cone_ranges(cones)).enumerate() {
        if cone_dim(c) == 0 {
            continue;
        }
        let (s, z) = (&e.s[r.clone()], &e.z[r.clone()]);
        if let ConeT::ZeroConeT(_) = c {
            if s.iter().any(|v| *v != 0.0) {
                return Some(json!({"what": "zero-cone slack not exactly zero", "cone": ci, "s": s, "iteration": e.iterations}));
            }
            continue;
        }
        // the nonnegative orthant needs no rounding allowance: its margin is min(s_i), computed exactly,
        // and the implementation itself divides by and takes logarithms of these components
        if let ConeT::NonnegativeConeT(_) = c {
            if let Some(i) = s.iter().chain(z.iter()).position(|v| !(*v > 0.0)) {
                return Some(json!({"what": "nonnegative-cone component not strictly positive", "cone": ci, "component": i % s.len(), "of": if i < s.len() { "s" } else { "z" }, "s": s, "z": z, "iteration": e.iterations}));
            }
            continue;
        }
        // second-order, exponential, power and PSD blocks are judged while the FOURTH powers of their components
        // are representable numbers (the second-order step length takes the discriminant b^2 - ac of a quadratic
        // whose coefficients are themselves squares): a block that has shrunk below 1e-75 (reached only by runs
        // that are never allowed to stop, after 40+ iterations) is underflow noise to the implementation's own
        // forms, and "up to rounding" has no relative meaning there
        // a block that is exactly zero sits at the apex: not interior, and no rounding argument applies
        if s.iter().all(|v| *v == 0.0) || z.iter().all(|v| *v == 0.0) {
            return Some(json!({"what": "block exactly at the apex of its cone", "cone": ci, "kind": vkit::cones::cone_name(c), "s": s, "z": z, "iteration": e.iterations}));
        }
        let blk = s.iter().chain(z.iter()).fold(0.0f64, |m, v| m.max(v.abs()));
        let blk_min = s.iter().fold(0.0f64, |m, v| m.max(v.abs())).min(z.iter().fold(0.0f64, |m, v| m.max(v.abs())));
        if !(blk_min >= 1e-75 && blk <= 1e75) {
            NOT_JUDGED.fetch_add(1, std::sync::atomic::Ordering::Relaxed);
            continue;
        }
        // "up to rounding": the iterate is s_prev + alpha*ds evaluated in floating point, so its error is
        // proportional to the PREVIOUS block's size too (a step through the apex shrinks a block 100-fold at
        // max_step_fraction = 0.99 and leaves rounding of the old magnitude behind)
        let amax = |v: &[f64]| v.iter().fold(0.0f64, |m, x| m.max(x.abs()));
        let (ps, pz) = match prev {
            Some(pe) if pe.s.len() == e.s.len() => (amax(&pe.s[r.clone()]), amax(&pe.z[r.clone()])),
            _ => (0.0, 0.0),
        };
        let (ms, scs) = margin(c, s, false);
        let scs = scs.max(ps);
        if !(ms > -1e-13 * scs) {
            return Some(json!({"what": "s not strictly inside K", "cone": ci, "kind": vkit::cones::cone_name(c), "margin": ms, "scale": scs, "s": s, "iteration": e.iterations}));
        }
        let (mz, scz) = margin(c, z, true);
        let scz = scz.max(pz);
        if !(mz > -1e-13 * scz) {
            return Some(json!({"what": "z not strictly inside K*", "cone": ci, "kind": vkit::cones::cone_name(c), "margin": mz, "scale": scz, "z": z, "iteration": e.iterations}));
        }
    }
    None
}

fn same_bits(a: &IterEvent, b: &IterEvent) -> bool {
    a.τ.to_bits() == b.τ.to_bits()
        && a.κ.to_bits() == b.κ.to_bits()
        && a.x.len() == b.x.len()
        && a.x.iter().zip(&b.x).all(|(p, q)| p.to_bits() == q.to_bits())
        && a.s.iter().zip(&b.s).all(|(p, q)| p.to_bits() == q.to_bits())
        && a.z.iter().zip(&b.z).all(|(p, q)| p.to_bits() == q.to_bits())
}

/// the point a run ends at is one of its own iterates: the last one, or - after the roll-back that an
/// insufficient-progress stop performs - the one before it, bit for bit (homogenisation scalars included)
fn final_is_an_iterate(res: &problem::SolveResult) -> Option<serde_json::Value> {
    let fe = res.final_event()?;
    let its: Vec<&IterEvent> = res.iter_events().collect();
    if its.is_empty() {
        return None;
    }
    let lo = its.len().saturating_sub(2);
    if its[lo..].iter().any(|e| same_bits(e, fe)) {
        return None;
    }
    let last = its[its.len() - 1];
    Some(json!({"what": "the final point is neither the last nor the last-but-one iterate of the run", "status": status_name(res.status), "final_tau": fe.τ, "final_kappa": fe.κ,
                "last_iterate_tau": last.τ, "last_iterate_kappa": last.κ, "previous_iterate_tau": its[lo].τ, "previous_iterate_kappa": its[lo].κ}))
}

fn ulp_close(a: f64, b: f64, ulps: f64) -> bool {
    if a == b || (a.is_nan() && b.is_nan()) {
        return true;
    }
    (a - b).abs() <= ulps * f64::EPSILON * a.abs().max(b.abs())
}

/// zero the tail rows of A and b of (most) second-order cones: slack, dual and every step direction then lie ON
/// the cone's axis
fn axis_only_second_order_cones(p: &mut problem::Problem, rng: &mut Rng) -> bool {
    let mut a = Dense::from_csc(&p.A);
    let mut any = false;
    for (c, r) in p.cones.clone().iter().zip(cone_ranges(&p.cones)) {
        if let ConeT::SecondOrderConeT(d) = c {
            if *d >= 2 && rng.bool(0.7) {
                for i in r.start + 1..r.end {
                    for j in 0..p.n() {
                        a.set(i, j, 0.0);
                    }
                    p.b[i] = 0.0;
                }
                any = true;
            }
        }
    }
    if any {
        p.A = a.to_csc();
    }
    any
}

pub fn run(ctx: &mut Ctx) {
    let wl = "trajectories";
    let bound = clarabel::get_infinity();
    let total = ctx.count(160, 2400);
    for case in ctx.cases(wl, total) {
        if ctx.out_of_budget() {
            continue;
        }
        ctx.begin(wl, case);
        let mut rng = Rng::for_case(ctx.seed, "C07/trajectories", case);
        let mut o = GenOpts { kinds: gen::all_kinds(), ..Default::default() };
        o.nmax = *rng.choose(&[3, 8, 16]);
        o.mmax = *rng.choose(&[8, 20, 40]);
        // zero-tolerance slice (see below): mostly symmetric cones, whose runs go on longest
        let zero_tol = rng.bool(0.2);
        if zero_tol && rng.bool(0.7) {
            o.kinds = if rng.bool(0.5) { vec!["NN"] } else { vec!["NN", "Zero", "SOC"] };
        }
        let fam = if zero_tol { rng.usize(0, 6) } else { rng.usize(0, 9) };
        let p = match fam {
            0..=6 => gen::planted(&mut rng, &o).problem,
            7 => gen::primal_infeasible(&mut rng, &o).0,
            _ => gen::dual_infeasible(&mut rng, &o).0,
        };
        // a slice whose least-squares starting point lies astronomically far outside the cones
        // (the initial shift into the interior is then decided by rounding)
        let mut p = p;
        if rng.bool(0.12) {
            let f = 10f64.powf(rng.range(15.0, 30.0));
            for v in p.b.iter_mut() {
                if rng.bool(0.5) {
                    *v *= f;
                }
            }
            if rng.bool(0.3) {
                for v in p.q.iter_mut() {
                    *v *= f.sqrt();
                }
            }
            ctx.bump("far_start_instances");
        } else if rng.bool(0.1) {
            // a contradictory pair of big-M bounds  r.x >= M  and  -r.x >= M  (M up to 1e30): the
            // least-squares start has both slacks at about -M while everything else stays O(1), so the shift
            // into the interior must move the iterate by M and still leave a positive margin
            let (n, m) = (p.n(), p.m());
            let big = 10f64.powf(rng.range(15.0, 30.0));
            let mut a = Dense::from_csc(&p.A);
            let mut a2 = Dense::zeros(m + 2, n);
            for i in 0..m {
                for j in 0..n {
                    a2.set(i, j, a.get(i, j));
                }
            }
            let j0 = rng.usize(0, n - 1);
            for j in 0..n {
                if j == j0 || rng.bool(0.3) {
                    let v = rng.range(0.5, 2.0) * if rng.bool(0.5) { 1.0 } else { -1.0 };
                    a2.set(m, j, -v);
                    a2.set(m + 1, j, v);
                }
            }
            a = a2;
            p.A = a.to_csc();
            p.b.push(-big);
            p.b.push(-big);
            p.cones.push(ConeT::NonnegativeConeT(2));
            ctx.bump("big_M_pair_instances");
        }
        // second-order cones used as plain bounds: (a.x + b, 0, ..., 0) in SOC, i.e. the tail rows of A and b are
        // zero, so slack, dual and every step direction lie ON the cone's axis (the quadratic of the step-length
        // computation degenerates: zero discriminant up to rounding)
        if rng.bool(0.12) && axis_only_second_order_cones(&mut p, &mut rng) {
            ctx.bump("instances_with_axis_only_second_order_cones");
        }
        let mut st = gen::random_settings(&mut rng, true);
        st.max_step_fraction = *rng.choose(&[0.5, 0.9, 0.99, 0.999]);
        st.linesearch_backtrack_step = *rng.choose(&[0.5, 0.8, 0.95]);
        st.time_limit = f64::INFINITY;
        st.max_iter = *rng.choose(&[25, 60, 200]);
        // a slice that never meets a stopping test (all tolerances zero): the run goes on until max_iter or a
        // numerical stop, and the complementary components s_i z_i = mu fall far below machine epsilon - absolute
        // thresholds in the ratio tests (|dz_i| < eps treated as "not limiting") show only there
        if zero_tol {
            st.tol_gap_abs = 0.0;
            st.tol_gap_rel = 0.0;
            st.tol_feas = 0.0;
            st.tol_infeas_abs = 0.0;
            st.tol_infeas_rel = 0.0;
            st.tol_ktratio = 0.0;
            st.reduced_tol_gap_abs = 0.0;
            st.reduced_tol_gap_rel = 0.0;
            st.reduced_tol_feas = 0.0;
            st.reduced_tol_infeas_abs = 0.0;
            st.reduced_tol_infeas_rel = 0.0;
            st.reduced_tol_ktratio = 0.0;
            st.max_iter = *rng.choose(&[40, 60]);
            ctx.bump("zero_tolerance_instances");
        }
        let long = match problem::run(&p, &st) {
            Ok(r) => r,
            Err(msg) => {
                ctx.inconclusive(&format!("panic: {msg}"), wl, case);
                continue;
            }
        };
        ctx.bump(&format!("status_{}", status_name(long.status)));
        ctx.nontrivial_hash(p.hash() ^ case);
        let cones = long.internal_cones.clone();
        let its: Vec<&IterEvent> = long.iter_events().collect();
        // (1) interior iterates, positive scalars, accepted step lengths in (0,1]
        let mut prev_idx: Option<u32> = None;
        let mut switches = 0;
        for (k, e) in its.iter().enumerate() {
            ctx.eval(1);
            if let Some(v) = interior_violation(&cones, e, if k > 0 { Some(its[k - 1]) } else { None }) {
                // recorded finding: kappa decays geometrically for > 100 iterations on a numerically stuck
                // instance and finally underflows to exactly 0.0 (tau stays positive)
                let underflow = e.κ == 0.0 && e.τ > 0.0 && k > 0 && its[k - 1].κ > 0.0 && its[k - 1].κ < 1e-290 && e.iterations > 100;
                let sig = if underflow { "iterate_not_interior:kappa_underflow" } else { "iterate_not_interior" };
                ctx.violation("iterate_not_interior", sig, wl, case, case_json(&p, &st, &long, v));
                break;
            }
            if let Some(pi) = prev_idx {
                if e.iterations == pi {
                    switches += 1;
                } else if e.iterations == pi + 1 {
                    let moved = !same_bits(e, its[k - 1]);
                    if moved {
                        let a = e.step_length;
                        if !(a > 0.0 && a <= 1.0) {
                            ctx.violation("step_length_out_of_range", "step_length_out_of_range", wl, case, case_json(&p, &st, &long, json!({"iteration": e.iterations, "alpha": a})));
                        }
                        ctx.observe_max("max_accepted_alpha", a);
                    } else {
                        switches += 1; // index advanced without a step: strategy switch after a failed KKT solve / short step
                    }
                } else {
                    ctx.violation("iteration_index_jump", "iteration_index_jump", wl, case, case_json(&p, &st, &long, json!({"from": pi, "to": e.iterations})));
                }
            } else if e.iterations != 0 {
                ctx.violation("iteration_index_start", "iteration_index_start", wl, case, case_json(&p, &st, &long, json!({"first": e.iterations})));
            }
            prev_idx = Some(e.iterations);
        }
        if let Some(v) = final_is_an_iterate(&long) {
            ctx.violation("final_point_is_no_iterate", "final_point_is_no_iterate", wl, case, case_json(&p, &st, &long, v));
        }
        if switches > 0 {
            ctx.bump("runs_with_scaling_strategy_switch");
        }
        if cones.iter().any(|c| matches!(c, ConeT::ExponentialConeT() | ConeT::PowerConeT(_) | ConeT::GenPowerConeT(_, _))) {
            ctx.bump("runs_with_nonsymmetric_cones");
        }
        // (2) prefix property: max_iter = k returns the k-th iterate of the long run, bit for bit
        let kmax = long.iterations.min(if ctx.thorough() { 40 } else { 25 });
        // in a third of the cases the budget-limited runs are re-solves of ONE solver object (whose state is
        // whatever the previous, differently limited solve left behind) instead of fresh solvers
        let mut reused = if case % 3 == 1 { problem::new_solver(&p, &st).ok() } else { None };
        if reused.is_some() {
            ctx.bump("prefix_runs_on_a_reused_solver_object");
        }
        for k in 0..=kmax {
            let mut sk = st.clone();
            sk.max_iter = k;
            let attempt = match reused.as_mut() {
                Some(solver) => {
                    solver.settings.max_iter = k;
                    problem::solve_observed(solver).map(|ev| problem::extract(solver, ev))
                }
                None => problem::run(&p, &sk),
            };
            let short = match attempt {
                Ok(r) => r,
                Err(msg) => {
                    ctx.violation("prefix_run_panicked", "prefix_run_panicked", wl, case, case_json(&p, &sk, &long, json!({"k": k, "panic": msg})));
                    break;
                }
            };
            ctx.eval(1);
            let fs = match short.final_event() {
                Some(f) => f.clone(),
                None => continue,
            };
            // reference: the long run's final event if it also ended at index k, else its last Iterate event with index k
            let reference: Option<&IterEvent> = if long.iterations == k { long.final_event() } else { its.iter().rev().find(|e| e.iterations == k).copied() };
            let rf = match reference {
                Some(r) => r,
                None => {
                    ctx.violation("prefix_missing_index", "prefix_missing_index", wl, case, case_json(&p, &sk, &long, json!({"k": k})));
                    break;
                }
            };
            if !same_bits(&fs, rf) {
                ctx.violation("prefix_iterate_differs", if reused.is_some() { "prefix_iterate_differs:reused_solver" } else { "prefix_iterate_differs" }, wl, case, case_json(&p, &sk, &long, json!({"k": k, "short_tau": fs.τ, "long_tau": rf.τ, "short_status": status_name(short.status), "long_status": status_name(long.status), "long_iterations": long.iterations})));
                break;
            }
            // returned solution = that internal iterate un-scaled with the public equilibration (8 ulp)
            let pm = presolve_model(&p, &sk, &short, bound);
            let inf = is_infeasible_status(short.status);
            let sc = 1.0 / if inf { fs.κ } else { fs.τ };
            let cinv = 1.0 / short.c;
            let mut bad = None;
            for j in 0..p.n() {
                let want = fs.x[j] * short.d[j] * sc;
                if !ulp_close(short.x[j], want, 8.0) {
                    bad = Some(json!({"vec": "x", "j": j, "got": short.x[j], "want": want}));
                }
            }
            let mut r = 0;
            for i in 0..p.m() {
                if !pm.keep[i] {
                    continue;
                }
                if r >= fs.s.len() {
                    bad = Some(json!({"vec": "s", "what": "internal vector shorter than kept rows"}));
                    break;
                }
                let ws = fs.s[r] * short.einv[r] * sc;
                let wz = fs.z[r] * short.e[r] * (sc * cinv);
                if !ulp_close(short.s[i], ws, 8.0) {
                    bad = Some(json!({"vec": "s", "i": i, "got": short.s[i], "want": ws}));
                }
                if !ulp_close(short.z[i], wz, 8.0) {
                    bad = Some(json!({"vec": "z", "i": i, "got": short.z[i], "want": wz}));
                }
                r += 1;
            }
            if let Some(b) = bad {
                ctx.violation("returned_point_vs_internal_iterate", "returned_point_vs_internal_iterate", wl, case, case_json(&p, &sk, &short, json!({"k": k, "mismatch": b, "tau": fs.τ, "kappa": fs.κ, "c": short.c})));
                break;
            }
            // the point handed back after k iterations lies in the USER's cones: the internal iterate is strictly interior
            // and the row scaling is uniform inside every non-polyhedral cone, so un-scaling cannot leave K x K* by more
            // than rounding (judged when no row was removed by the presolver and the returned point is finite)
            if pm.keep.iter().all(|b| *b) && short.s.iter().chain(short.z.iter()).all(|v| v.is_finite()) {
                let mut out = None;
                for (c, rg) in p.cones.iter().zip(cone_ranges(&p.cones)) {
                    if rg.is_empty() || matches!(c, ConeT::ZeroConeT(_)) {
                        continue;
                    }
                    let (ms, ss) = margin(c, &short.s[rg.clone()], false);
                    let (mz, sz) = margin(c, &short.z[rg.clone()], true);
                    ctx.eval(1);
                    if !(ms >= -1e-9 * ss && mz >= -1e-9 * sz) {
                        out = Some(json!({"cone": vkit::cones::cone_name(c), "rows": [rg.start, rg.end], "margin_s": ms, "scale_s": ss, "margin_z": mz, "scale_z": sz}));
                        break;
                    }
                }
                ctx.bump("returned_prefix_points_judged_against_user_cones");
                if let Some(o) = out {
                    ctx.violation("returned_prefix_point_outside_user_cone", "returned_prefix_point_outside_user_cone", wl, case, case_json(&p, &sk, &short, json!({"k": k, "outside": o})));
                    break;
                }
            }
            if short.status == SolverStatus::MaxIterations {
                ctx.bump("prefix_runs_ending_MaxIterations");
            } else {
                ctx.bump("prefix_runs_ending_other_status");
            }
        }
        if case < 2 {
            ctx.sample(json!({"workload": wl, "n": p.n(), "m": p.m(), "cones": problem::cones_json(&p.cones), "status": status_name(long.status), "iterations": long.iterations, "prefix_runs": kmax + 1}));
        }
    }

    // ---- runs that never meet a stopping test: interior down to the round-off floor ----
    // Small symmetric-cone problems with the optimality tolerances at zero and otherwise default (or sampled)
    // settings: the run continues until max_iter or until the solver gives up by itself; by then the
    // complementary components have fallen to 1e-17 and below, where absolute thresholds in the ratio tests
    // ("a direction below eps limits nothing") let a damped step cross the boundary.  Cheap (no prefix runs),
    // so there are many of them.
    let wl = "to_the_roundoff_floor";
    let total = ctx.count(600, 12000);
    for case in ctx.cases(wl, total) {
        if ctx.out_of_budget() {
            continue;
        }
        ctx.begin(wl, case);
        let mut rng = Rng::for_case(ctx.seed, "C07/to_the_roundoff_floor", case);
        let mut o = GenOpts { kinds: match rng.usize(0, 3) { 0 => vec!["NN"], 1 => vec!["NN", "Zero"], 2 => vec!["NN", "SOC", "SOC", "Zero"], _ => vec!["SOC", "Zero", "SOC"] }, ..Default::default() };
        o.nmax = *rng.choose(&[3, 6, 10]);
        o.mmax = *rng.choose(&[7, 13, 24]);
        o.allow_empty_cones = false;
        let mut p = gen::planted(&mut rng, &o).problem;
        if rng.bool(0.5) {
            p.P = clarabel::algebra::CscMatrix::zeros((p.n(), p.n()));
        }
        if rng.bool(0.5) && axis_only_second_order_cones(&mut p, &mut rng) {
            ctx.bump("floor_instances_with_axis_only_second_order_cones");
        }
        // pure feasibility problems (P = 0, q = 0): the least-squares start has z EXACTLY zero, i.e. every dual
        // block starts at the apex of its cone and only the shift into the interior moves it
        if rng.bool(0.12) {
            p.P = clarabel::algebra::CscMatrix::zeros((p.n(), p.n()));
            for v in p.q.iter_mut() {
                *v = 0.0;
            }
            ctx.bump("floor_feasibility_problems_(P=0,q=0)");
        }
        let mut st = if rng.bool(0.5) { clarabel::solver::DefaultSettings::<f64>::default() } else { gen::random_settings(&mut rng, true) };
        st.verbose = false;
        st.time_limit = f64::INFINITY;
        st.max_iter = *rng.choose(&[60, 100]);
        st.tol_gap_abs = 0.0;
        st.tol_gap_rel = 0.0;
        st.tol_feas = 0.0;
        if rng.bool(0.5) {
            st.tol_infeas_abs = 0.0;
            st.tol_infeas_rel = 0.0;
            st.tol_ktratio = 0.0;
        }
        let r = match problem::run(&p, &st) {
            Ok(r) => r,
            Err(msg) => {
                ctx.inconclusive(&format!("panic: {msg}"), wl, case);
                continue;
            }
        };
        ctx.nontrivial_hash(p.hash() ^ case);
        ctx.bump(&format!("floor_status_{}", status_name(r.status)));
        let cones = r.internal_cones.clone();
        let its: Vec<&IterEvent> = r.iter_events().collect();
        let mut smallest = f64::INFINITY;
        for (k, e) in its.iter().enumerate() {
            ctx.eval(1);
            for v in e.s.iter().chain(e.z.iter()) {
                if *v > 0.0 {
                    smallest = smallest.min(*v);
                }
            }
            if let Some(v) = interior_violation(&cones, e, if k > 0 { Some(its[k - 1]) } else { None }) {
                let underflow = e.κ == 0.0 && e.τ > 0.0 && k > 0 && its[k - 1].κ > 0.0 && its[k - 1].κ < 1e-290 && e.iterations > 100;
                let sig = if underflow { "iterate_not_interior:kappa_underflow" } else { "iterate_not_interior" };
                ctx.violation("iterate_not_interior", sig, wl, case, case_json(&p, &st, &r, v));
                break;
            }
            if k > 0 && e.iterations == its[k - 1].iterations + 1 && !same_bits(e, its[k - 1]) && !(e.step_length > 0.0 && e.step_length <= 1.0) {
                ctx.violation("step_length_out_of_range", "step_length_out_of_range", wl, case, case_json(&p, &st, &r, json!({"iteration": e.iterations, "alpha": e.step_length})));
                break;
            }
        }
        if let Some(v) = final_is_an_iterate(&r) {
            ctx.violation("final_point_is_no_iterate", "final_point_is_no_iterate", wl, case, case_json(&p, &st, &r, v));
        }
        if let (Some(fe), Some(last)) = (r.final_event(), its.last()) {
            if !same_bits(fe, last) {
                ctx.bump("floor_runs_ending_with_a_roll_back");
            }
        }
        if smallest < 1e-16 {
            ctx.bump("floor_runs_with_a_positive_component_below_1e-16");
        }
        ctx.observe_max("floor_minus_log10_smallest_component", -smallest.log10());
        let nj = NOT_JUDGED.swap(0, std::sync::atomic::Ordering::Relaxed);
        if nj > 0 {
            ctx.bump_n("cone_blocks_beyond_1e-75_or_1e75_not_judged", nj);
        }
        if case < 1 {
            ctx.sample(json!({"workload": wl, "n": p.n(), "m": p.m(), "cones": problem::cones_json(&p.cones), "status": status_name(r.status), "iterations": r.iterations, "smallest_positive_component": smallest}));
        }
    }
}
